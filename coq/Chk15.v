(* Chk15.v — lemmas behind Properties/C15.v: a withdrawal pays what is shown, resets it, mints nothing
   else and leaves every other pair's pending reward alone; the withdraw address; the arithmetic of one
   reward update (within one atomic unit of the ideal, up and down — the upward unit is finding F7);
   the refuted exact upper bound.  No pinned theorems here. *)
From Verif Require Import Base OMap Bank Dec Staking StakingInv Chk14 StakingHist Chk16.
Local Open Scope N_scope.

(* ---------- withdrawal ---------- *)

(* what get_rewards shows for an entry whose validator's clock stands at the block time *)
Lemma q_rewards_at_now P now s d v comm vi sh : get_val P v = Some comm -> get_vi v s = Some vi ->
  get_stake d v s = Some sh -> vi_last vi = now ->
  forall x, q_rewards P now s d v = SOk x -> x = Some (to_uint_floor (sh_rew sh)).
Proof.
  intros Gc Gv G El x H. unfold q_rewards in H. rewrite Gc, G, Gv in H. unfold rewards_internal in H. rewrite El in H.
  destruct (calculate_rewards now now (p_apr P) comm (vi_stake vi)) as [r0| | |] eqn:C; cbn [sbind] in H; try discriminate.
  pose proof (calc_ok_bounds _ _ _ _ _ _ C) as [B1 B2].
  pose proof (calc_zero_td now now (p_apr P) comm (vi_stake vi) ltac:(lia) eq_refl B1 B2) as C'.
  assert (r0 = 0) by congruence. subst r0. rewrite share_of_zero in H. cbn [sbind] in H.
  unfold dec_add in H. rewrite N.add_0_r in H. destruct (fit (sh_rew sh)) eqn:F; cbn [sbind] in H; try discriminate.
  apply fit_inv in F as [-> _]. congruence.
Qed.

Lemma q_rewards_at_now_ok P now s d v comm vi sh : get_val P v = Some comm -> get_vi v s = Some vi ->
  get_stake d v s = Some sh -> vi_last vi = now ->
  vi_stake vi * D18 < U128 -> vi_stake vi * D18 * p_apr P / D18 < U128 -> sh_rew sh < U128 ->
  q_rewards P now s d v = SOk (Some (to_uint_floor (sh_rew sh))).
Proof.
  intros Gc Gv G El B1 B2 B3. unfold q_rewards. rewrite Gc, G, Gv. unfold rewards_internal. rewrite El.
  rewrite (calc_zero_td now now (p_apr P) comm (vi_stake vi) ltac:(lia) eq_refl B1 B2). cbn [sbind].
  rewrite share_of_zero. cbn [sbind]. unfold dec_add. rewrite N.add_0_r, (fit_ok _ B3). reflexivity.
Qed.

Lemma withdraw_pays_shown_lemma P now s d v s' :
  stakers_ok s -> last_ok now s -> bank_wf (s_bank s) -> exec_withdraw P now s d v = SOk s' ->
  forall x, q_rewards P now s d v = SOk x ->
  exists r, x = Some r /\ 0 < r /\
    let w := withdraw_addr s d in
    (* paid, to the current withdraw address, and nothing else minted or moved *)
    q_balance s' w = q_balance s w + r /\ (forall a, a <> w -> q_balance s' a = q_balance s a) /\
    q_pool s' = q_pool s /\ q_supply s' = q_supply s + r /\
    (forall d' v', stake_of s' d' v' = stake_of s d' v') /\ s_queue s' = s_queue s /\ s_waddr s' = s_waddr s /\
    (* reset *)
    rew_of s' d v = 0.
Proof.
  intros Hs Hl Hw H x Hq.
  apply withdraw_lemma in H as (s1 & sh & Hu & G & H); [|exact Hw]. cbn zeta in H.
  destruct H as (Pr & Kv & So & Sv & St & Vi & Q & W & Hw' & Bw & Bo & Bp & Su).
  destruct (update_rewards_shown _ _ _ _ _ Hs Hu d v) as [E1 _]. rewrite <- E1 in Hq.
  pose proof (update_rewards_last_ok _ _ _ _ _ Hl Hu) as Hl1.
  pose proof Hu as Hu'. apply update_rewards_spec in Hu' as (vi & comm & Gv & Gc & SB & Vo & Vv).
  assert (El : N.max now (vi_last vi) = now) by (pose proof (Hl v vi Gv); lia). rewrite El in Vv.
  pose proof (q_rewards_at_now P now s1 d v comm _ sh Gc Vv G eq_refl x Hq) as Ex.
  exists (to_uint_floor (sh_rew sh)). split; [exact Ex|]. split; [exact Pr|]. cbn zeta.
  split; [exact Bw|]. split; [exact Bo|]. split; [exact Bp|]. split; [exact Su|]. split; [exact St|].
  split; [exact Q|]. split; [exact W|]. unfold rew_of. rewrite Sv. reflexivity.
Qed.

(* after the withdrawal the pending reward shown for the pair is zero (when the query does not overflow) *)
Lemma withdraw_resets_lemma P now s d v s' :
  stakers_ok s -> last_ok now s -> bank_wf (s_bank s) -> exec_withdraw P now s d v = SOk s' ->
  forall x, q_rewards P now s' d v = SOk x -> x = Some 0.
Proof.
  intros Hs Hl Hw H x Hq.
  apply withdraw_lemma in H as (s1 & sh & Hu & G & H); [|exact Hw]. cbn zeta in H.
  destruct H as (Pr & Kv & So & Sv & St & Vi & Q & W & Hw' & Bw & Bo & Bp & Su).
  pose proof Hu as Hu'. apply update_rewards_spec in Hu' as (vi & comm & Gv & Gc & SB & Vo & Vv).
  assert (El : N.max now (vi_last vi) = now) by (pose proof (Hl v vi Gv); lia). rewrite El in Vv.
  rewrite <- Vi in Vv.
  apply (q_rewards_at_now P now s' d v comm _ _ Gc Vv Sv eq_refl x Hq).
Qed.

(* every other pair's pending reward (and Delegation answer) is what it was *)
Lemma others_unaffected_lemma P now s d v s' :
  stakers_ok s -> bank_wf (s_bank s) -> exec_withdraw P now s d v = SOk s' ->
  forall d' v', (d', v') <> (d, v) ->
    q_rewards P now s' d' v' = q_rewards P now s d' v' /\ q_delegation P now s' d' v' = q_delegation P now s d' v'.
Proof.
  intros Hs Hw H d' v' Hn.
  apply withdraw_lemma in H as (s1 & sh & Hu & G & H); [|exact Hw]. cbn zeta in H.
  destruct H as (Pr & Kv & So & Sv & St & Vi & _).
  destruct (update_rewards_shown _ _ _ _ _ Hs Hu d' v') as [E1 E2]. rewrite <- E1, <- E2.
  unfold q_rewards, q_delegation. rewrite (So d' v' Hn), Vi. split; reflexivity.
Qed.

(* ---------- the withdraw address: last set, or self ---------- *)
Lemma set_withdraw_lemma s d w s' : exec_set_withdraw s d (Some w) = SOk s' ->
  withdraw_addr s' d = w /\ (forall d', d' <> d -> withdraw_addr s' d' = withdraw_addr s d') /\
  s_stakes s' = s_stakes s /\ s_vi s' = s_vi s /\ s_queue s' = s_queue s /\ s_bank s' = s_bank s.
Proof.
  unfold exec_set_withdraw. destruct (d =? w) eqn:E; intros H; injection H as <-; unfold withdraw_addr; cbn [s_waddr set_waddrs].
  - apply N.eqb_eq in E. subst w. split; [|split; [|repeat split]].
    + rewrite (fget_fdel N.eqb Neqb_spec), N.eqb_refl. reflexivity.
    + intros d' Hn. rewrite (fget_fdel N.eqb Neqb_spec). apply N.eqb_neq in Hn. rewrite Hn. reflexivity.
  - split; [|split; [|repeat split]].
    + rewrite (fget_fset N.eqb Neqb_spec), N.eqb_refl. reflexivity.
    + intros d' Hn. rewrite (fget_fset N.eqb Neqb_spec). apply N.eqb_neq in Hn. rewrite Hn. reflexivity.
Qed.
Lemma set_withdraw_invalid s d : exec_set_withdraw s d None = SErr. Proof. reflexivity. Qed.

(* no other operation touches the withdraw addresses *)
Lemma waddr_frame su w o w' : winv su w -> step su w o = SOk w' ->
  match o with SetWithdraw _ _ => True | _ => s_waddr (w_st w') = s_waddr (w_st w) end.
Proof.
  intros I H. destruct o as [d v a b|d v a b|d v1 v2 a b|d v|d wd|v p|dt]; try exact Logic.I.
  - cbn [step] in H. inv_bind H as s' Hs. injection H as <-. apply delegate_exact_lemma in Hs; [|apply (inv_bank _ _ _ I)]. apply Hs.
  - cbn [step] in H. inv_bind H as s' Hs. injection H as <-. apply undelegate_lemma in Hs. apply Hs.
  - cbn [step] in H. inv_bind H as s' Hs. injection H as <-. apply redelegate_lemma in Hs. apply Hs.
  - cbn [step] in H. inv_bind H as s' Hs. injection H as <-.
    apply withdraw_lemma in Hs as (s1 & sh & _ & _ & Hs); [|apply (inv_bank _ _ _ I)]. apply Hs.
  - cbn [step] in H. inv_bind H as s' Hs. injection H as <-.
    apply slash_facts in Hs; [|apply (inv_stakers _ _ _ I)]. apply Hs.
  - apply advance_pays_due in H; [|exact I]. apply H.
Qed.

(* ---------- the arithmetic of one reward update ---------- *)

Definition YD : N := YEAR * D18.     (* one atomic unit of reward, in the unit (atomics * seconds * atomics) / ... see below *)

(* calculate_rewards is within ONE atomic unit of  stake * apr * secs * (1 - commission) / YEAR, in both
   directions.  V is that ideal times YEAR * 10^18 (all integers). *)
Lemma calc_rewards_value now since apr comm st nr :
  calculate_rewards now since apr comm st = SOk nr -> comm <= D18 ->
  let secs := (now - since / NS * NS) / NS in
  let V := st * apr * secs * (D18 - comm) in
  nr * YD < V + YD /\ V < nr * YD + YD.
Proof.
  unfold calculate_rewards. destruct (now <? since / NS * NS); [discriminate|]. intros H Hc. cbn zeta.
  set (secs := (now - since / NS * NS) / NS) in *.
  inv_bind H as sd Hsd. apply dec_of_uint_inv in Hsd. subst sd.
  inv_bind H as x1 Hx1. apply dec_mul_inv in Hx1.
  inv_bind H as tdd Htd. apply dec_of_uint_inv in Htd. subst tdd.
  inv_bind H as x2 Hx2. apply dec_mul_inv in Hx2.
  rewrite year_dec in H. cbn [sbind] in H.
  inv_bind H as reward Hr. apply dec_div_inv in Hr as [Hr _].
  inv_bind H as c Hcm. apply dec_mul_inv in Hcm. apply dec_sub_inv in H as [Hn Hle].
  assert (X1 : x1 = st * apr).
  { rewrite Hx1. replace (st * D18 * apr) with (st * apr * D18) by lia. apply N.div_mul, D18_neq. }
  assert (X2 : x2 = st * apr * secs).
  { rewrite Hx2, X1. replace (st * apr * (secs * D18)) with (st * apr * secs * D18) by lia. apply N.div_mul, D18_neq. }
  assert (R : reward = x2 / YEAR).
  { rewrite Hr. apply N.div_mul_cancel_r; discriminate. }
  pose proof (N.div_mod x2 YEAR ltac:(discriminate)) as E1. pose proof (N.mod_lt x2 YEAR ltac:(discriminate)) as E1'.
  rewrite <- R in E1. set (m1 := x2 mod YEAR) in *. clearbody m1.
  pose proof (N.div_mod (reward * comm) D18 D18_neq) as E2. pose proof (N.mod_lt (reward * comm) D18 D18_neq) as E2'.
  rewrite <- Hcm in E2. set (m2 := (reward * comm) mod D18) in *. clearbody m2.
  set (k := D18 - comm). assert (Hk : k + comm = D18) by (unfold k; lia). clearbody k.
  assert (P1 : reward * D18 = reward * k + reward * comm) by (rewrite <- N.mul_add_distr_l, Hk; reflexivity).
  assert (P2 : reward * YEAR * k <= x2 * k) by (apply N.mul_le_mono_r; lia).
  assert (P4 : (x2 + 1) * k <= (reward * YEAR + YEAR) * k) by (apply N.mul_le_mono_r; lia).
  rewrite <- X2. unfold YD. unfold YEAR, D18 in *. split; nia.
Qed.

(* share_of_rewards is floor(nr * share / (total * 10^18)) *)
Lemma share_value st vs nr x : share_of_rewards st vs nr = SOk x -> vs <> 0 ->
  x * (vs * D18) <= nr * st /\ nr * st < (x + 1) * (vs * D18).
Proof.
  unfold share_of_rewards. intros H Hv. apply N.eqb_neq in Hv. rewrite Hv in H. apply N.eqb_neq in Hv.
  inv_bind H as m Hm. apply dec_mul_inv in Hm. apply dec_div_uint_inv in H as [Hx _].
  pose proof (N.div_mod (nr * st) D18 D18_neq) as E1. pose proof (N.mod_lt (nr * st) D18 D18_neq) as E1'. rewrite <- Hm in E1.
  set (m1 := (nr * st) mod D18) in *. clearbody m1.
  pose proof (N.div_mod m vs Hv) as E2. pose proof (N.mod_lt m vs Hv) as E2'. rewrite <- Hx in E2.
  set (m2 := m mod vs) in *. clearbody m2. clear Hm Hx.
  unfold D18 in *. split; nia.
Qed.

(* ONE REWARD UPDATE credits a delegator x atomic units with
     x <= ideal + kappa   and   ideal < x + 1 + kappa,
   ideal = share * apr * secs * (1 - commission) / YEAR (in atomic units), kappa = share / validator total
   (= at most 1 in drift-free states); stated without division, times  total * 10^18 * YEAR * 10^18. *)
Lemma reward_update_bounds_lemma P now s v s1 vi comm d sh :
  stakers_ok s -> update_rewards P now s v = SOk s1 ->
  get_vi v s = Some vi -> get_val P v = Some comm -> comm <= D18 -> vi_last vi < now -> vi_stake vi <> 0 ->
  get_stake d v s = Some sh ->
  let secs := (now - vi_last vi / NS * NS) / NS in
  let V := vi_stake vi * p_apr P * secs * (D18 - comm) in
  exists x, get_stake d v s1 = Some (mkSh (sh_stake sh) (sh_rew sh + x)) /\
    x * (vi_stake vi * D18) * YD <= (V + YD) * sh_stake sh /\
    V * sh_stake sh < ((x + 1) * (vi_stake vi * D18) + sh_stake sh) * YD.
Proof.
  intros Hs H Gv Gc Hc Hl Hv G. cbn zeta. unfold update_rewards in H. rewrite Gv, Gc in H.
  replace (now <=? vi_last vi) with false in H by (symmetry; apply N.leb_gt, Hl).
  inv_bind H as nr Hnr. pose proof (calc_rewards_value _ _ _ _ _ _ Hnr Hc) as [C1 C2]. cbn zeta in C1, C2.
  set (secs := (now - vi_last vi / NS * NS) / NS) in *. set (V := vi_stake vi * p_apr P * secs * (D18 - comm)) in *.
  set (vs := vi_stake vi) in *. set (st := sh_stake sh).
  assert (Hpos : 0 < vs * D18) by (unfold D18; lia).
  destruct (nr =? 0) eqn:Z.
  - injection H as <-. apply N.eqb_eq in Z. subst nr. exists 0. rewrite get_stake_put_vi, N.add_0_r.
    split; [rewrite G; destruct sh; reflexivity|]. split; [lia|].
    assert (V < YD) by lia. assert (V * st <= YD * st) by (apply N.mul_le_mono_r; lia). unfold YD, YEAR, D18 in *. nia.
  - destruct (Hs v vi Gv) as [Hnd Hin].
    pose proof (credit_stakers_rew _ _ _ _ _ _ Hnd H d sh) as Cr. rewrite get_stake_put_vi in Cr. specialize (Cr G).
    assert (Md : mem d (vi_stakers vi) = true) by (apply mem_In, Hin; congruence). rewrite Md in Cr.
    destruct Cr as (x & Hx & _ & Gx). exists x. split; [exact Gx|].
    apply share_value in Hx as [S1 S2]; [|exact Hv]. fold vs st in S1, S2.
    split.
    + assert (A1 : x * (vs * D18) * YD <= nr * st * YD) by (apply N.mul_le_mono_r; exact S1).
      assert (A2 : nr * YD * st <= (V + YD) * st) by (apply N.mul_le_mono_r; lia). lia.
    + assert (A1 : V * st <= (nr * YD + YD) * st) by (apply N.mul_le_mono_r; lia).
      assert (A2 : (nr * st + 1) * YD <= ((x + 1) * (vs * D18)) * YD) by (apply N.mul_le_mono_r; lia).
      unfold YD, YEAR, D18 in *. nia.
Qed.

(* ---------- the exact upper bound is false of the faithful model (finding F7) ---------- *)

(* the simplest instance of "never over-paid": on a fresh chain one delegator delegates a, time passes,
   the delegator withdraws: paid <= a * apr * (1 - commission) * seconds / YEAR  (times YEAR * 10^36) *)
Definition rewards_upper_single : Prop :=
  forall su w0 d v a dt w1 w2 w3,
    init_world su = SOk w0 -> step su w0 (Delegate d v a true) = SOk w1 -> step su w1 (Advance dt) = SOk w2 ->
    step su w2 (Withdraw d v) = SOk w3 ->
    (q_balance (w_st w3) d - q_balance (w_st w2) d) * TOK36 <= a * rate su v * secs_between (w_now w1) (w_now w2).

(* F7: apr 1.000000000000000001, commission 10^-18, stake 31 536 000, one second: pays 1 token, the ideal is 1 - 10^-36 *)
Definition f7_su : setup :=
  mkSetup 60 1000000000000000001 [(1, 1)] [(1, 100000000); (2, 1000)] [1; 2] 1571797419879305533 USTAKE XDEN.
Definition f7_w0 : world := Eval vm_compute in ok_or_dummy (init_world f7_su).
Definition f7_w1 : world := Eval vm_compute in ok_or_dummy (step f7_su f7_w0 (Delegate 1 1 31536000 true)).
Definition f7_w2 : world := Eval vm_compute in ok_or_dummy (step f7_su f7_w1 (Advance 1000000000)).
Definition f7_w3 : world := Eval vm_compute in ok_or_dummy (step f7_su f7_w2 (Withdraw 1 1)).
Lemma f7_steps :
  init_world f7_su = SOk f7_w0 /\ step f7_su f7_w0 (Delegate 1 1 31536000 true) = SOk f7_w1 /\
  step f7_su f7_w1 (Advance 1000000000) = SOk f7_w2 /\ step f7_su f7_w2 (Withdraw 1 1) = SOk f7_w3.
Proof. repeat split; vm_compute; reflexivity. Qed.
Lemma f7_witness :
  q_balance (w_st f7_w3) 1 - q_balance (w_st f7_w2) 1 = 1 /\
  31536000 * rate f7_su 1 * secs_between (w_now f7_w1) (w_now f7_w2) = TOK36 - 31536000 /\
  (* the relaxed bound (one atomic unit) holds *)
  1 * TOK36 <= 31536000 * rate f7_su 1 * secs_between (w_now f7_w1) (w_now f7_w2) + 31536000 * ATOM.
Proof. repeat split; vm_compute; try reflexivity. discriminate. Qed.

Lemma rewards_upper_single_refuted_lemma : ~ rewards_upper_single.
Proof.
  intros H. destruct f7_steps as (S0 & S1 & S2 & S3).
  pose proof (H f7_su f7_w0 1 1 31536000 1000000000 f7_w1 f7_w2 f7_w3 S0 S1 S2 S3) as C.
  destruct f7_witness as (E1 & E2 & _). rewrite E1, E2 in C. vm_compute in C. apply C. reflexivity.
Qed.

(* ---------- ... and holds up to ONE atomic unit (the relaxed form), for every scenario of that shape ---------- *)

Lemma secs_eq t n : t <= n -> (n - t / NS * NS) / NS = n / NS - t / NS.
Proof.
  intros H. set (k := t / NS).
  assert (L : k * NS <= t) by (unfold k; rewrite N.mul_comm; apply N.mul_div_le; discriminate).
  clearbody k. remember (k * NS) as kn eqn:Ek.
  assert (E2 : n / NS = (n - kn) / NS + k).
  { rewrite <- (N.div_add (n - kn) k NS) by discriminate. rewrite <- Ek. f_equal. lia. }
  rewrite E2, N.add_sub. reflexivity.
Qed.

Lemma init_world_fresh su w0 : init_world su = SOk w0 ->
  w_now w0 = su_t0 su /\ s_stakes (w_st w0) = [] /\ s_queue (w_st w0) = [] /\ s_waddr (w_st w0) = [] /\
  forall v vi, get_vi v (w_st w0) = Some vi -> vi = mkVi [] 0 (su_t0 su).
Proof.
  unfold init_world. intros H. inv_bind H as s0 Hs. injection H as <-.
  unfold init_state in Hs. inv_bind Hs as b Hb. inv_bind Hs as vis Hv. injection Hs as <-. cbn [w_now w_st s_stakes s_queue s_waddr].
  repeat split. intros v vi G. apply init_vis_spec in Hv as (_ & _ & N3). unfold get_vi in G. cbn [s_vi] in G. rewrite N3 in G.
  destruct (mem v (map fst (su_vals su))); [injection G as <-; reflexivity|discriminate].
Qed.

Lemma rewards_upper_single_partial_lemma su w0 d v a dt w1 w2 w3 :
  init_world su = SOk w0 -> step su w0 (Delegate d v a true) = SOk w1 -> step su w1 (Advance dt) = SOk w2 ->
  step su w2 (Withdraw d v) = SOk w3 -> comm_of su v <= D18 ->
  (q_balance (w_st w3) d - q_balance (w_st w2) d) * TOK36 <=
    a * rate su v * secs_between (w_now w1) (w_now w2) + ATOM.
Proof.
  intros H0 S1 S2 S3 Hc.
  pose proof (init_world_inv su w0 H0) as I0. pose proof (step_inv _ _ _ _ I0 S1) as I1. pose proof (step_inv _ _ _ _ I1 S2) as I2.
  destruct (init_world_fresh su w0 H0) as (En0 & Es0 & Eq0 & Ew0 & Ev0).
  (* the delegation *)
  cbn [step] in S1. inv_bind S1 as s1 X1. injection S1 as <-.
  pose proof (delegate_exact_lemma _ _ _ _ _ _ _ _ (inv_bank _ _ _ I0) X1) as (Pa & _ & Kv & _ & _ & _ & _ & _ & _ & _ & _ & _ & _ & Q1 & W1 & _).
  unfold exec_delegate in X1. replace (a =? 0) with false in X1 by (symmetry; apply N.eqb_neq; lia). cbn [negb] in X1.
  inv_bind X1 as s1a U1. inv_bind X1 as b1 B1. injection X1 as <-.
  apply update_stake_spec in U1 as (vi0 & comm & st' & ns & Gv0 & Gc & _ & _ & _ & _ & _ & _ & Vv1 & _ & _ & Ens & _ & _ & Fresh).
  pose proof (Ev0 v vi0 Gv0) as Evi. subst vi0. cbn [vi_stake vi_last] in *.
  assert (G0 : get_stake d v (w_st w0) = None) by (unfold get_stake; rewrite Es0; reflexivity).
  assert (Hns : ns = a * D18) by (rewrite Ens; unfold stake_of; rewrite G0; lia).
  assert (G1 : get_stake d v s1a = Some (mkSh (a * D18) 0)).
  { rewrite <- Hns. apply Fresh; [exact G0|]. rewrite Hns. unfold D18. lia. }
  rewrite N.add_0_l, En0, N.max_id in Vv1.
  (* the block update: the queue is empty *)
  cbn [step w_now w_st] in S2. destruct (U64 <=? w_now w0 + dt); [discriminate|]. inv_bind S2 as s2 X2. injection S2 as <-.
  unfold process_queue in X2. cbn [set_bank s_queue] in X2. cbn [w_st set_bank s_queue] in Q1. rewrite Q1, Eq0 in X2.
  cbn [process_queue_from] in X2. injection X2 as <-.
  (* the withdrawal *)
  cbn [step w_now w_st] in S3. inv_bind S3 as s3 X3. injection S3 as <-. cbn [w_st w_now] in *.
  set (s2 := set_queue (set_bank s1a b1) []) in *. set (now2 := w_now w0 + dt) in *.
  assert (G2 : get_stake d v s2 = Some (mkSh (a * D18) 0)) by exact G1.
  assert (V2 : get_vi v s2 = Some (mkVi st' a (su_t0 su))) by exact Vv1.
  apply withdraw_lemma in X3 as (s1' & sh & Hu & G & X3); [|apply (inv_bank _ _ _ I2)]. cbn zeta in X3.
  destruct X3 as (Pr & _ & _ & _ & _ & _ & _ & _ & _ & Bw & _ & _ & _).
  assert (Ewd : withdraw_addr s2 d = d).
  { unfold withdraw_addr. cbn [s2 set_queue set_bank s_waddr]. cbn [w_st set_bank s_waddr] in W1. rewrite W1, Ew0. reflexivity. }
  rewrite Ewd in Bw. rewrite Bw. replace (q_balance s2 d + to_uint_floor (sh_rew sh) - q_balance s2 d) with (to_uint_floor (sh_rew sh)) by lia.
  set (r := to_uint_floor (sh_rew sh)) in *.
  assert (Ecm : comm_of su v = comm).
  { unfold comm_of. unfold get_val in Gc. cbn [p_vals params_of] in Gc. rewrite Gc. reflexivity. }
  rewrite Ecm in Hc.
  destruct (N.le_gt_cases now2 (su_t0 su)) as [Le|Lt].
  - (* no time credited: nothing to withdraw *)
    exfalso. unfold update_rewards in Hu. rewrite V2, Gc in Hu. cbn [vi_last] in Hu.
    replace (now2 <=? su_t0 su) with true in Hu by (symmetry; apply N.leb_le, Le). injection Hu as <-.
    rewrite G2 in G. injection G as <-. unfold r in Pr. cbn in Pr. lia.
  - destruct (reward_update_bounds_lemma (params_of su) now2 s2 v s1' _ comm d _ (inv_stakers _ _ _ I2) Hu V2 Gc Hc Lt
               ltac:(cbn; lia) G2) as (x & Gx & Up & _).
    cbn [vi_stake vi_last sh_stake sh_rew p_apr params_of] in *. rewrite Gx in G. injection G as <-.
    assert (Er : r = to_uint_floor x) by (unfold r; cbn [sh_rew]; try rewrite N.add_0_l; reflexivity).
    clearbody r. subst r. set (r := to_uint_floor x) in *.
    assert (Lr : r * D18 <= x) by (unfold r; apply floor_le).
    rewrite secs_eq in Up by lia.
    assert (Es : secs_between (su_t0 su) now2 = now2 / NS - su_t0 su / NS) by reflexivity.
    cbn [w_now]. rewrite En0, Es.
    unfold rate. rewrite Ecm, N.min_l by exact Hc. unfold TOK36, ATOM.
    set (secs := now2 / NS - su_t0 su / NS) in *. set (k := D18 - comm) in *. set (apr := su_apr su) in *.
    (* Up : x * (a * D18) * YD <= (a * apr * secs * k + YD) * (a * D18) ; cancel a * D18 > 0 *)
    assert (Hpos : 0 < a * D18) by (unfold D18; lia).
    assert (Ux : x * YD <= a * apr * secs * k + YD).
    { apply (N.mul_le_mono_pos_r _ _ (a * D18) Hpos). lia. }
    assert (L1 : r * D18 * YD <= x * YD) by (apply N.mul_le_mono_r; exact Lr).
    unfold YD in *. lia.
Qed.
