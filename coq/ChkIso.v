(* ChkIso.v — check for C08 (each contract's storage is private to it and is all it can touch).
   FIRST the property oracle [p_c08] on what the IMPLEMENTATION did — it looks only at the input tree, the
   implementation's log, the raw root store decoded by window before / after the call and the four
   read-backs; it never runs the executor model — -> PropFail; THEN the full correspondence with the
   executor model (ChkExec.corr) -> Disagree.  PropFail code = step_index * 16 + clause. *)
From Verif Require Import Base OMap Text Proto Bank Exec ExecFacts ExecFacts2 ExecIso ChkExec ChkX.
Local Open Scope N_scope.

(* one key probed at one contract, four ways *)
Record kread := {
  kr_key : bytes;
  kr_own : option (option bytes);       (* deps.storage.get inside the contract's own query handler; None = the query failed *)
  kr_raw : option bytes;                (* WasmQuery::Raw through App::wrap(); None = the query failed *)
  kr_get : option bytes;                (* App::contract_storage(addr).get *)
  kr_get_mut : option bytes             (* App::contract_storage_mut(addr).get *)
}.
(* one contract read back four ways *)
Record rback := {
  rb_addr : text;
  rb_own : option (list (bytes * bytes));   (* deps.storage.range inside the contract's own query handler *)
  rb_dump : list (bytes * bytes);           (* App::dump_wasm_raw *)
  rb_sto : list (bytes * bytes);            (* App::contract_storage(addr).range *)
  rb_sto_mut : list (bytes * bytes);        (* App::contract_storage_mut(addr).range *)
  rb_keys : list kread
}.
Record istep := {
  i_step : step;
  i_before : chain;                         (* the raw root store decoded by window right BEFORE the call *)
  i_rb : list rback
}.

Definition memt (c : text) (l : list text) : bool := existsb (teqb c) l.
Definition kvs_eqb : list (bytes * bytes) -> list (bytes * bytes) -> bool := list_eqb kv_eqb.

(* ---------- clause 10: what the root body read from its own storage ---------- *)
(* The root program of a top-level execute / sudo starts from the callee's window as it was before the
   call.  Walk its script: every get / range over its own storage must return exactly what THAT window plus
   its own earlier writes give — a function of the callee's own data only.  Other queries produce one log
   entry each and are skipped; the walk stops at the first smart query (its sub-log has no fixed length). *)
Fixpoint check_own_reads (node : N) (own : omapb) (acts : list action) (tr : trace) : bool :=
  match acts with
  | [] => true
  | AWrite k v :: r => check_own_reads node (insert bcmp k v own) r tr
  | ARemove k :: r => check_own_reads node (delete bcmp k own) r tr
  | AQ (QSmart _ _) :: _ => true
  | AQ (QRead k) :: r =>
      match tr with
      | RObs n (VBytes x) :: tr' => (n =? node) && obytes_eqb x (assoc bcmp k own) && check_own_reads node own r tr'
      | _ => false
      end
  | AQ QDump :: r =>
      match tr with
      | RObs n (VDump l) :: tr' => (n =? node) && kvs_eqb l own && check_own_reads node own r tr'
      | _ => false
      end
  | AQ _ :: r => match tr with _ :: tr' => check_own_reads node own r tr' | [] => false end
  end.

Definition root_call (op : topop) : option (text * prog) :=
  match op with
  | TWasmSudo c p => Some (c, p)
  | _ => match top_msgs op with MExec c p _ :: _ => Some (c, p) | _ => None end
  end.

Definition root_reads_ok (before : chain) (op : topop) (tr : trace) : bool :=
  match root_call op, tr with
  | Some (c, Prog node acts _), RCall n _ c' _ _ _ _ _ :: tr' =>
      negb ((n =? node) && teqb c c') || check_own_reads node (cstore_get before c) acts tr'
  | _, _ => true
  end.

(* ---------- clause 9: the four read-backs ---------- *)
Definition kread_ok (d : omapb) (k : kread) : bool :=
  let v := assoc bcmp (kr_key k) d in
  option_eqb obytes_eqb (kr_own k) (Some v)
  && obytes_eqb (kr_raw k) (Some (match v with Some x => x | None => [] end))    (* absent key = empty bytes *)
  && obytes_eqb (kr_get k) v && obytes_eqb (kr_get_mut k) v.

Definition rback_ok (after : chain) (r : rback) : bool :=
  let d := cstore_get after (rb_addr r) in
  option_eqb kvs_eqb (rb_own r) (Some d) && kvs_eqb (rb_dump r) d && kvs_eqb (rb_sto r) d && kvs_eqb (rb_sto_mut r) d
  && forallb (kread_ok d) (rb_keys r).

(* ---------- clause 11 / 12: a contract whose code ran EXACTLY ONCE in a successful call ---------- *)
(* its window afterwards = its window before with exactly that body's writes and removes applied in order:
   nothing anybody else in the tree did (sub-messages at other contracts, instantiations, the wasm module
   itself) touched it, and nothing it wrote was lost *)
Definition apply_acts (acts : list action) (own : omapb) : omapb :=
  fold_left (fun o a => match a with AWrite k v => insert bcmp k v o | ARemove k => delete bcmp k o | AQ _ => o end) acts own.

(* 11: the root program (first message's execute / sudo): it is committed iff the call succeeded *)
Definition root_writes_ok (before after : chain) (op : topop) (tr : trace) (ok : bool) : bool :=
  match root_call op, tr with
  | Some (c, Prog node acts _), RCall n _ c' _ _ _ _ _ :: tr' =>
      negb (ok && (n =? node) && teqb c c' && negb (memt c (ran tr')))
      || kvs_eqb (cstore_get after c) (apply_acts acts (cstore_get before c))
  | _, _ => true
  end.

(* 12: any depth.  If the call succeeded and no reply was delivered with an error, no sub-message failed, so
   every body in the log is committed.  The program of a log entry is found by its node number (unique in the
   harness's scenarios): not part of C08_model_ok *)
Definition has_err_reply (tr : trace) : bool :=
  existsb (fun en => match en with RCall _ EReply _ _ _ _ _ (Some (_, _, RRErr)) => true | _ => false end) tr.
Definition ran_once (a : text) (tr : trace) : bool := Nat.eqb (length (filter (teqb a) (ran tr))) 1.
Definition single_calls_ok (before after : chain) (op : topop) (tr : trace) : bool :=
  forallb (fun en => match en with
                     | RCall n _ a _ _ _ _ _ =>
                         negb (ran_once a tr) ||
                         match find_info n (flat_op op) with
                         | Some pi => match pi_prog pi with
                                      | Prog _ acts _ => kvs_eqb (cstore_get after a) (apply_acts acts (cstore_get before a)) end
                         | None => true
                         end
                     | _ => true
                     end) tr.

(* ---------- the oracle ---------- *)
Definition p_c08 (x : istep) : option N :=
  let st := i_step x in
  let before := i_before x in
  let after := st_state st in
  let op := st_op st in
  first_fail [
    (* 5: every raw key of the root store lies in the window of a module or of a contract *)
    (5, st_other st =? 0);
    (* 6: the window of a contract that did NOT run in this call (no entry point of it was entered, at any
          depth) is byte for byte what it was — whatever keys the contracts that did run wrote *)
    (6, forallb (fun c => memt c (ran (st_trace st)) || kvs_eqb (cstore_get after c) (cstore_get before c))
                (map fst (cstore before) ++ map fst (cstore after)));
    (* 7: no balance changes unless the tree contains a bank message or attached funds *)
    (7, tb_op op || amap_eqb coins_eqb (bank after) (bank before));
    (* 8: no registry entry changes unless the tree contains an instantiate / migrate / admin message *)
    (8, tg_op op || amap_eqb cdata_eqb (reg after) (reg before));
    (* 9: every registered contract was read back, and its own read / dump from inside, WasmQuery::Raw,
          dump_wasm_raw, contract_storage and contract_storage_mut all show exactly its window *)
    (9, forallb (fun a => existsb (fun r => teqb (rb_addr r) a) (i_rb x)) (map fst (reg after))
        && forallb (rback_ok after) (i_rb x));
    (* 10: what the root body read is its own window + its own writes *)
    (10, root_reads_ok before op (st_trace st));
    (* 11: the root contract, if its code ran exactly once: window after = window before + its own writes *)
    (11, root_writes_ok before after op (st_trace st) (match st_outcome st with Ok _ => true | _ => false end))
  ].

(* clause 12 (outside C08_model_ok, see above) *)
Definition p_c08x (x : istep) : option N :=
  let st := i_step x in
  first_fail [
    (12, match st_outcome st with
         | Ok _ => has_err_reply (st_trace st) || single_calls_ok (i_before x) (st_state st) (st_op st) (st_trace st)
         | _ => true end)
  ].
Fixpoint oracle_isteps_x (steps : list istep) (k : N) : option N :=
  match steps with
  | [] => None
  | x :: r => match p_c08x x with Some c => Some (k * 16 + c) | None => oracle_isteps_x r (k + 1) end
  end.

Fixpoint oracle_isteps (steps : list istep) (k : N) : option N :=
  match steps with
  | [] => None
  | x :: r => match p_c08 x with Some c => Some (k * 16 + c) | None => oracle_isteps r (k + 1) end
  end.

Definition c08 (ce : case_env) (steps : list istep) : verdict :=
  match oracle_isteps steps 0 with
  | Some c => PropFail c
  | None => match oracle_isteps_x steps 0 with
            | Some c => PropFail c
            | None => cexec ce (map i_step steps)
            end
  end.

(* ---------- the oracle accepts the model's own output, for ALL inputs ---------- *)
Definition model_rback (s : chain) (keys : list bytes) (a : text) : rback :=
  let d := cstore_get s a in
  {| rb_addr := a; rb_own := Some d; rb_dump := d; rb_sto := d; rb_sto_mut := d;
     rb_keys := map (fun k => let v := assoc bcmp k d in
                              {| kr_key := k; kr_own := Some v; kr_raw := Some (match v with Some x => x | None => [] end);
                                 kr_get := v; kr_get_mut := v |}) keys |}.

(* what the model says the harness observes for one call from state [s] *)
Definition model_istep (ce : case_env) (b : blockinfo) (op : topop) (keys : list bytes) (s : chain) : istep :=
  let '(tr, o, s') := run_top (mk_env ce b) op s in
  {| i_step := {| st_blk := b; st_op := op; st_trace := tr; st_outcome := o; st_state := s'; st_other := 0;
                  st_raw_same := match o with Ok _ => false | _ => true end |};
     i_before := s;
     i_rb := map (model_rback s' keys) (map fst (reg s')) |}.

Lemma beqb_refl a : beqb a a = true. Proof. apply beqb_eq. reflexivity. Qed.
Lemma list_eqb_refl {A} (eqb : A -> A -> bool) : (forall a, eqb a a = true) -> forall l, list_eqb eqb l l = true.
Proof. intros H. induction l as [|x l IH]; cbn; [reflexivity|]. rewrite H, IH. reflexivity. Qed.
Lemma obytes_eqb_refl o : obytes_eqb o o = true.
Proof. destruct o; cbn; [apply beqb_refl|reflexivity]. Qed.
Lemma kv_eqb_refl p : kv_eqb p p = true.
Proof. unfold kv_eqb. rewrite !beqb_refl. reflexivity. Qed.
Lemma kvs_eqb_refl l : kvs_eqb l l = true.
Proof. apply list_eqb_refl, kv_eqb_refl. Qed.
Lemma coins_eqb_refl l : coins_eqb l l = true.
Proof. apply list_eqb_refl. intros [d a]. unfold coin_eqb, teqb. cbn. rewrite beqb_refl, N.eqb_refl. reflexivity. Qed.
Lemma otext_eqb_refl (o : option text) : option_eqb teqb o o = true.
Proof. destruct o; cbn; [apply beqb_refl|reflexivity]. Qed.
Lemma cdata_eqb_refl c : cdata_eqb c c = true.
Proof. unfold cdata_eqb. rewrite !N.eqb_refl, otext_eqb_refl. unfold teqb. rewrite !beqb_refl. reflexivity. Qed.
Lemma amap_eqb_refl {A} (eq : A -> A -> bool) : (forall a, eq a a = true) -> forall m, amap_eqb eq m m = true.
Proof. intros H m. apply list_eqb_refl. intros [k v]. unfold teqb. cbn. rewrite beqb_refl, H. reflexivity. Qed.

Lemma memt_in c l : memt c l = false -> ~ In c l.
Proof.
  unfold memt. intros H I. assert (E : existsb (teqb c) l = true).
  { apply existsb_exists. exists c. split; [exact I|apply beqb_refl]. }
  rewrite E in H. discriminate.
Qed.

Lemma check_own_reads_model e s node : forall acts own rest,
  check_own_reads node own acts (fst (run_actions e s node own acts) ++ rest) = true.
Proof.
  induction acts as [|a r IH]; intros own rest; cbn [check_own_reads run_actions]; [reflexivity|].
  destruct a as [k v|k|q]; try apply IH.
  specialize (IH own rest). destruct (run_actions e s node own r) as [tr' own']. cbn [fst] in *.
  destruct q; cbn [run_qact app check_own_reads]; try exact IH; try reflexivity.
  - rewrite N.eqb_refl, obytes_eqb_refl. exact IH.
  - rewrite N.eqb_refl, kvs_eqb_refl. exact IH.
Qed.

Lemma check_own_reads_app node : forall acts own tr rest,
  check_own_reads node own acts tr = true -> check_own_reads node own acts (tr ++ rest) = true.
Proof.
  induction acts as [|a r IH]; intros own tr rest; cbn [check_own_reads]; [reflexivity|].
  destruct a as [k v|k|q]; try apply IH.
  destruct q; try reflexivity; (destruct tr as [|en tr']; [discriminate|]); cbn [app]; try apply IH.
  - destruct en as [| |n o|]; try discriminate. destruct o; try discriminate.
    intros H. apply andb_true_iff in H as [H1 H2]. rewrite H1. apply IH, H2.
  - destruct en as [| |n o|]; try discriminate. destruct o; try discriminate.
    intros H. apply andb_true_iff in H as [H1 H2]. rewrite H1. apply IH, H2.
Qed.

Lemma root_prog_reads_model e entry c sender funds rep cid rok node acts out s en tr' :
  trc (run_prog e entry c sender funds rep cid rok (Prog node acts out) s) = en :: tr' ->
  check_own_reads node (cstore_get s c) acts tr' = true.
Proof.
  cbn [run_prog]. destruct (lookup c (reg s)) as [cd|]; [|discriminate].
  destruct (find_code (cd_code cd) (codes e)) as [co|]; [|discriminate].
  destruct (negb (ep_available co entry)); [discriminate|].
  pose proof (fun rest => check_own_reads_model e s node acts (cstore_get s c) rest) as C.
  destruct (run_actions e s node (cstore_get s c) acts) as [tr_a own']. cbn [fst] in C.
  destruct out as [|attrs events data sbs].
  - cbn. intros H. injection H as _ <-. rewrite <- (app_nil_r tr_a). apply C.
  - destruct (verify_response attrs events).
    + cbn. intros H. injection H as _ <-. rewrite <- (app_nil_r tr_a). apply C.
    + destruct (process_subs e c sbs data (cstore_set s c own')) as [tr_s [[[ev d] s2]| |]]; cbn;
        intros H; injection H as _ <-; apply C.
Qed.

(* execute: funds move first, which does not touch any contract's storage *)
Lemma root_msg_reads_model e sender c node acts out funds s en tr' :
  trc (run_msg e sender (MExec c (Prog node acts out) funds) s) = en :: tr' ->
  check_own_reads node (cstore_get s c) acts tr' = true.
Proof.
  rewrite exec_runs_after_funds. destruct (negb (is_valid e c)); [discriminate|].
  destruct (move_funds s sender c funds) as [s1| |] eqn:M; try discriminate.
  destruct (move_funds_spec _ _ _ _ _ M) as (_ & Cs & _).
  assert (G : cstore_get s1 c = cstore_get s c) by (unfold cstore_get; rewrite Cs; reflexivity).
  pose proof (root_prog_reads_model e EExec c (Some sender) funds None 0 true node acts out s1 en tr') as R.
  destruct (run_prog e EExec c (Some sender) funds None 0 true (Prog node acts out) s1) as [tr rr]. cbn [trc fst] in *.
  rewrite <- G. exact R.
Qed.

(* an execute that succeeds has logged at least its own header *)
Lemma exec_ok_trace_nonempty e sender c p funds s tr r : run_msg e sender (MExec c p funds) s = (tr, Ok r) -> tr <> [].
Proof.
  rewrite exec_runs_after_funds. destruct (negb (is_valid e c)); [discriminate|].
  destruct (move_funds s sender c funds) as [s1| |]; try discriminate.
  pose proof (run_prog_head e EExec c (Some sender) funds None 0 true p s1) as H.
  destruct (serving e s1 c EExec).
  - destruct H as [rest H]. destruct (run_prog e EExec c (Some sender) funds None 0 true p s1) as [tr1 r1]. cbn [trc fst] in H.
    subst tr1. intros E. injection E as <- _. discriminate.
  - rewrite H. discriminate.
Qed.

Lemma run_msgs_head_exec e sender c p f ms s en tr' :
  trc (run_msgs e sender (MExec c p f :: ms) s) = en :: tr' ->
  exists tm rest, trc (run_msg e sender (MExec c p f) s) = en :: tm /\ tr' = tm ++ rest.
Proof.
  cbn [run_msgs]. destruct (run_msg e sender (MExec c p f) s) as [tr1 [[r1 s1]| |]] eqn:E1; cbn [trc fst].
  - pose proof (exec_ok_trace_nonempty _ _ _ _ _ _ _ _ E1) as N.
    destruct tr1 as [|en1 tm]; [contradiction|].
    destruct (run_msgs e sender ms s1) as [tr2 [[rss s2]| |]]; cbn [trc fst app]; intros H; injection H as -> <-;
      exists tm, tr2; auto.
  - intros ->. exists tr', []. rewrite app_nil_r. auto.
  - intros ->. exists tr', []. rewrite app_nil_r. auto.
Qed.

Lemma top_trace_is_msgs e op s sender :
  top_sender op = Some sender -> top_trace (run_top e op s) = trc (run_msgs e sender (top_msgs op) s).
Proof.
  destruct op as [sd ms|sd m|c0 p|to amt|sd m|sd m]; cbn [top_sender top_msgs run_top]; intros H; try discriminate;
    injection H as ->.
  - destruct (run_msgs e sender ms s) as [tr [[rs s']| |]]; reflexivity.
  - destruct (run_msgs e sender [m] s) as [tr [[rs s']| |]]; reflexivity.
  - destruct (run_msgs e sender [m] s) as [tr [[rs s']| |]]; try reflexivity.
    destruct (helper_inst_addr (snd (first_resp rs))); reflexivity.
  - destruct (run_msgs e sender [m] s) as [tr [[rs s']| |]]; try reflexivity.
    destruct (helper_exec_data (snd (first_resp rs))); reflexivity.
Qed.

Lemma root_reads_model e op s : root_reads_ok s op (top_trace (run_top e op s)) = true.
Proof.
  unfold root_reads_ok. destruct (root_call op) as [[c [node acts out]]|] eqn:R; [|reflexivity].
  destruct (top_trace (run_top e op s)) as [|en tr'] eqn:T; [reflexivity|].
  destruct en as [n e' c' sd f b t r| | |]; try reflexivity.
  destruct ((n =? node) && teqb c c'); [|reflexivity]. cbn [negb orb].
  destruct (top_sender op) as [sender|] eqn:S.
  - rewrite (top_trace_is_msgs e op s sender S) in T.
    assert (M : exists f0 ms, top_msgs op = MExec c (Prog node acts out) f0 :: ms).
    { unfold root_call in R. destruct op; try discriminate S;
        (destruct (top_msgs _) as [|m0 ms0]; [discriminate|]; destruct m0; try discriminate;
         injection R as -> ->; eexists; eexists; reflexivity). }
    destruct M as (f0 & ms & M). rewrite M in T.
    destruct (run_msgs_head_exec _ _ _ _ _ _ _ _ _ T) as (tm & rest & Em & ->).
    apply check_own_reads_app. eapply root_msg_reads_model. exact Em.
  - destruct op as [sd0 ms|sd0 m|c0 p|to amt|sd0 m|sd0 m]; try discriminate S.
    + cbn [root_call] in R. injection R as -> ->. cbn [run_top] in T.
      eapply (root_prog_reads_model e ESudo c None [] None 0 true node acts out s).
      destruct (run_prog e ESudo c None [] None 0 true (Prog node acts out) s) as [tr [[rs s']| |]]; exact T.
    + cbn in R. discriminate.
Qed.

(* ---------- clause 11 on the model ---------- *)
Lemma prog_root_writes e entry c sender funds rep cid rok node acts out s r s' en tr' :
  sorted_cstore s ->
  run_prog e entry c sender funds rep cid rok (Prog node acts out) s = (en :: tr', Ok (r, s')) ->
  ~ In c (ran tr') -> sorted_cstore s' /\ cstore_get s' c = apply_acts acts (cstore_get s c).
Proof.
  intros Hs. cbn [run_prog]. destruct (lookup c (reg s)) as [cd|]; [|discriminate].
  destruct (find_code (cd_code cd) (codes e)) as [co|]; [|discriminate].
  destruct (negb (ep_available co entry)); [discriminate|].
  pose proof (run_actions_own_only e s node acts (cstore_get s c)) as Ho.
  destruct (run_actions e s node (cstore_get s c) acts) as [tr_a own']. cbn [snd] in Ho.
  destruct out as [|attrs events data sbs]; [discriminate|].
  destruct (verify_response attrs events); [discriminate|].
  pose proof (proj1 (proj2 (proj2 (proj2 (exec_frame e)))) sbs c data (cstore_set s c own')) as F.
  destruct (process_subs e c sbs data (cstore_set s c own')) as [tr_s [[[ev d] s2]| |]]; cbn [outc trc fst snd] in F;
    intros H; try discriminate.
  injection H as _ <- _ <-. intros N. specialize (F _ _ eq_refl (cstore_set_sorted s c own' Hs)).
  destruct F as (Hs2 & Fc & _). split; [exact Hs2|].
  rewrite Fc.
  - rewrite cstore_get_set_same by exact Hs. exact Ho.
  - intros I. apply N. rewrite ran_app. apply in_or_app. right. exact I.
Qed.

Lemma msg_root_writes e sender c node acts out funds s r s' en tr' :
  sorted_cstore s ->
  run_msg e sender (MExec c (Prog node acts out) funds) s = (en :: tr', Ok (r, s')) ->
  ~ In c (ran tr') -> sorted_cstore s' /\ cstore_get s' c = apply_acts acts (cstore_get s c).
Proof.
  intros Hs. rewrite exec_runs_after_funds. destruct (negb (is_valid e c)); [discriminate|].
  destruct (move_funds s sender c funds) as [s1| |] eqn:M; try discriminate.
  destruct (move_funds_spec _ _ _ _ _ M) as (_ & Cs & _).
  assert (G : cstore_get s1 c = cstore_get s c) by (unfold cstore_get; rewrite Cs; reflexivity).
  assert (Hs1 : sorted_cstore s1) by (unfold sorted_cstore; rewrite Cs; exact Hs).
  pose proof (prog_root_writes e EExec c (Some sender) funds None 0 true node acts out s1) as P.
  destruct (run_prog e EExec c (Some sender) funds None 0 true (Prog node acts out) s1) as [tr [[[ev d] s2]| |]];
    intros H; try discriminate.
  injection H as -> _ <-. intros N. rewrite <- G. exact (P _ _ _ _ Hs1 eq_refl N).
Qed.

Lemma msgs_root_writes e sender c node acts out funds ms s rs s' en tr' :
  sorted_cstore s ->
  run_msgs e sender (MExec c (Prog node acts out) funds :: ms) s = (en :: tr', Ok (rs, s')) ->
  ~ In c (ran tr') -> cstore_get s' c = apply_acts acts (cstore_get s c).
Proof.
  intros Hs. cbn [run_msgs].
  pose proof (msg_root_writes e sender c node acts out funds s) as P.
  destruct (run_msg e sender (MExec c (Prog node acts out) funds) s) as [tr1 [[r1 s1]| |]] eqn:E1; try discriminate.
  pose proof (exec_ok_trace_nonempty _ _ _ _ _ _ _ _ E1) as Ne. destruct tr1 as [|en1 tm]; [contradiction|].
  pose proof (run_msgs_frame e sender ms s1) as F.
  destruct (run_msgs e sender ms s1) as [tr2 [[rss s2]| |]]; cbn [outc trc fst snd] in F; intros H; try discriminate.
  cbn [app] in H. injection H as -> <- _ <-. intros N.
  assert (N1 : ~ In c (ran tm)) by (intros I; apply N; rewrite ran_app; apply in_or_app; left; exact I).
  assert (N2 : ~ In c (ran tr2)) by (intros I; apply N; rewrite ran_app; apply in_or_app; right; exact I).
  destruct (P _ _ _ _ Hs eq_refl N1) as [Hs1 G1].
  destruct (F _ _ eq_refl Hs1) as (_ & Fc & _). rewrite (Fc c N2). exact G1.
Qed.

Lemma top_ok_is_msgs e op s sender : top_sender op = Some sender ->
  is_ok (top_outcome (run_top e op s)) = true ->
  exists rs, run_msgs e sender (top_msgs op) s = (top_trace (run_top e op s), Ok (rs, top_state (run_top e op s))).
Proof.
  destruct op as [sd ms|sd m|c0 p|to amt|sd m|sd m]; cbn [top_sender top_msgs run_top]; intros H; try discriminate;
    injection H as ->.
  - destruct (run_msgs e sender ms s) as [tr [[rs s']| |]]; cbn; intros H; try discriminate. eexists; reflexivity.
  - destruct (run_msgs e sender [m] s) as [tr [[rs s']| |]]; cbn; intros H; try discriminate. eexists; reflexivity.
  - destruct (run_msgs e sender [m] s) as [tr [[rs s']| |]]; cbn; try discriminate.
    destruct (helper_inst_addr (snd (first_resp rs))); cbn; intros H; try discriminate. eexists; reflexivity.
  - destruct (run_msgs e sender [m] s) as [tr [[rs s']| |]]; cbn; try discriminate.
    destruct (helper_exec_data (snd (first_resp rs))); cbn; intros H; try discriminate. eexists; reflexivity.
Qed.

Lemma memt_not_in c l : memt c l = false -> ~ In c l.
Proof. apply memt_in. Qed.

Lemma root_writes_model e op s : sorted_cstore s ->
  root_writes_ok s (top_state (run_top e op s)) op (top_trace (run_top e op s)) (is_ok (top_outcome (run_top e op s))) = true.
Proof.
  intros Hs. unfold root_writes_ok. destruct (root_call op) as [[c [node acts out]]|] eqn:R; [|reflexivity].
  destruct (top_trace (run_top e op s)) as [|en tr'] eqn:T; [reflexivity|].
  destruct en as [n e' c' sd f b t r| | |]; try reflexivity.
  destruct (is_ok (top_outcome (run_top e op s))) eqn:Ok1; [|reflexivity]. cbn [andb].
  destruct ((n =? node) && teqb c c'); [|reflexivity]. destruct (memt c (ran tr')) eqn:M; [reflexivity|].
  cbn [andb negb orb]. apply memt_in in M.
  match goal with |- kvs_eqb ?a ?b = true => assert (E : a = b); [|rewrite E; apply kvs_eqb_refl] end.
  destruct (top_sender op) as [sender|] eqn:S.
  - destruct (top_ok_is_msgs e op s sender S Ok1) as [rs Hr]. rewrite T in Hr.
    assert (Ms : exists f0 ms, top_msgs op = MExec c (Prog node acts out) f0 :: ms).
    { unfold root_call in R. destruct op; try discriminate S;
        (destruct (top_msgs _) as [|m0 ms0]; [discriminate|]; destruct m0; try discriminate;
         injection R as -> ->; eexists; eexists; reflexivity). }
    destruct Ms as (f0 & ms & Ms). rewrite Ms in Hr.
    exact (msgs_root_writes e sender c node acts out f0 ms s rs _ _ tr' Hs Hr M).
  - destruct op as [sd0 ms|sd0 m|c0 p|to amt|sd0 m|sd0 m]; try discriminate S.
    + cbn [root_call] in R. injection R as -> ->. cbn [run_top] in T, Ok1 |- *.
      pose proof (prog_root_writes e ESudo c None [] None 0 true node acts out s) as P.
      destruct (run_prog e ESudo c None [] None 0 true (Prog node acts out) s) as [tr [[rs s']| |]]; cbn in T, Ok1 |- *;
        try discriminate. subst tr. destruct rs as [ev d]. exact (proj2 (P _ _ _ _ Hs eq_refl M)).
    + cbn in R. discriminate.
Qed.

Lemma first_fail_all_true l : forallb (fun x : N * bool => snd x) l = true -> first_fail l = None.
Proof.
  unfold first_fail. induction l as [|[c b] l IH]; cbn [forallb filter snd]; [reflexivity|].
  intros H. apply andb_true_iff in H as [-> H]. cbn [negb]. apply IH, H.
Qed.

(* For EVERY environment, block, top-level call, probe keys and (canonically sorted) state: the oracle
   accepts what the model itself produces.  So "the implementation agrees with the model" implies "the
   implementation's observations satisfy the property oracle". *)
Lemma p_c08_model ce b op keys s : sorted_cstore s -> p_c08 (model_istep ce b op keys s) = None.
Proof.
  intros Hs. unfold model_istep.
  pose proof (top_frame (mk_env ce b) op s) as F. pose proof (root_reads_model (mk_env ce b) op s) as Rd.
  pose proof (root_writes_model (mk_env ce b) op s Hs) as Rw.
  destruct (run_top (mk_env ce b) op s) as [[tr o] s'] eqn:E. cbn [top_trace top_state top_outcome fst snd] in F, Rd, Rw.
  destruct (F Hs) as (Hs' & Fc & Fb & Fg).
  unfold p_c08. apply first_fail_all_true.
  cbn [i_step i_before i_rb st_state st_op st_trace st_other forallb snd].
  repeat (apply andb_true_iff; split); try reflexivity.
  - apply forallb_forall. intros c _. destruct (memt c (ran tr)) eqn:M; [reflexivity|].
    rewrite (Fc c (memt_in _ _ M)). apply kvs_eqb_refl.
  - destruct (tb_op op); [reflexivity|]. rewrite (Fb eq_refl). apply (amap_eqb_refl coins_eqb coins_eqb_refl).
  - destruct (tg_op op); [reflexivity|]. rewrite (Fg eq_refl). apply (amap_eqb_refl cdata_eqb cdata_eqb_refl).
  - apply forallb_forall. intros a Ha. apply existsb_exists. exists (model_rback s' keys a).
    split; [apply in_map, Ha|]. cbn [rb_addr model_rback]. apply beqb_refl.
  - apply forallb_forall. intros r Hr. apply in_map_iff in Hr as (a & <- & _).
    unfold rback_ok. cbn [model_rback rb_addr rb_own rb_dump rb_sto rb_sto_mut rb_keys option_eqb].
    rewrite !kvs_eqb_refl. cbn [andb]. apply forallb_forall. intros k Hk. apply in_map_iff in Hk as (k0 & <- & _).
    unfold kread_ok. cbn [kr_key kr_own kr_raw kr_get kr_get_mut option_eqb]. rewrite !obytes_eqb_refl. reflexivity.
  - exact Rd.
  - cbn [st_outcome]. destruct o; exact Rw.
Qed.

(* the state the model threads stays canonically sorted *)
Lemma model_state_sorted e op s : sorted_cstore s -> sorted_cstore (top_state (run_top e op s)).
Proof. intros H. exact (proj1 (top_frame e op s H)). Qed.

Lemma c08_agree_sound ce steps : c08 ce steps = Agree ->
  oracle_isteps steps 0 = None /\ corr ce (map i_step steps) empty_chain 0 = None.
Proof.
  unfold c08, cexec. destruct (oracle_isteps steps 0); [discriminate|]. destruct (oracle_isteps_x steps 0); [discriminate|].
  destruct (corr ce (map i_step steps) empty_chain 0); [discriminate|]. auto.
Qed.

Lemma c08_agree_sound_x ce steps : c08 ce steps = Agree -> oracle_isteps_x steps 0 = None.
Proof.
  unfold c08. destruct (oracle_isteps steps 0); [discriminate|]. destruct (oracle_isteps_x steps 0); [discriminate|]. reflexivity.
Qed.
