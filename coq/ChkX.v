(* ChkX.v — per-property checks for the executor-level properties.  Each check evaluates FIRST a
   property oracle on what the IMPLEMENTATION did (model-independent: it looks only at the input tree,
   the implementation's log, outcome, returned events/data and decoded raw state) -> PropFail, THEN the
   full correspondence with the executor model -> Disagree.
   PropFail / Disagree code = step_index * 16 + clause. *)
From Verif Require Import Base OMap Text Proto Bank Exec ChkExec.
Local Open Scope N_scope.

(* ---------- static information about every program of a message tree, in pre-order ---------- *)
Record pinfo := {
  pi_node : N;
  pi_ep : ep;
  pi_disp : option N;                                   (* node of the dispatching program; None = top level *)
  pi_rep : option (N * bytes * reply_on * bool);        (* reply programs: id, payload, mode, true = on_ok branch *)
  pi_funds : coins;
  pi_target : option text;                              (* address named by the message (execute / migrate) *)
  pi_prog : prog;
  pi_inside : list N                                    (* reply programs: nodes inside the sub-message they answer *)
}.

Fixpoint nodes_msg (m : msg) : list N :=
  match m with
  | MExec _ p _ | MInst _ p _ _ _ _ | MMigrate _ _ p => nodes_prog p
  | _ => []
  end
with nodes_prog (p : prog) : list N :=
  match p with Prog node _ out => node :: match out with OFail => [] | OResp _ _ _ sbs => nodes_subs sbs end end
with nodes_subs (l : subs) : list N :=
  match l with SNil => [] | SCons sb r => nodes_sub sb ++ nodes_subs r end
with nodes_sub (sb : sub) : list N :=
  match sb with Sub _ _ _ m on_ok on_err => nodes_msg m ++ nodes_prog on_ok ++ nodes_prog on_err end.

Fixpoint flat_msg (disp : option N) (m : msg) : list pinfo :=
  match m with
  | MExec c p funds => flat_prog EExec disp None funds (Some c) [] p
  | MInst _ p funds _ _ _ => flat_prog EInst disp None funds None [] p
  | MMigrate c _ p => flat_prog EMigrate disp None [] (Some c) [] p
  | _ => []
  end
with flat_prog (e : ep) (disp : option N) (rep : option (N * bytes * reply_on * bool)) (funds : coins)
               (target : option text) (inside : list N) (p : prog) : list pinfo :=
  match p with
  | Prog node acts out =>
      {| pi_node := node; pi_ep := e; pi_disp := disp; pi_rep := rep; pi_funds := funds; pi_target := target;
         pi_prog := p; pi_inside := inside |}
      :: match out with OFail => [] | OResp _ _ _ sbs => flat_subs node sbs end
  end
with flat_subs (d : N) (l : subs) : list pinfo :=
  match l with SNil => [] | SCons sb r => flat_sub d sb ++ flat_subs d r end
with flat_sub (d : N) (sb : sub) : list pinfo :=
  match sb with
  | Sub id payload ro m on_ok on_err =>
      flat_msg (Some d) m
      ++ flat_prog EReply (Some d) (Some (id, payload, ro, true)) [] None (nodes_msg m) on_ok
      ++ flat_prog EReply (Some d) (Some (id, payload, ro, false)) [] None (nodes_msg m) on_err
  end.

Definition top_sender (op : topop) : option text :=
  match op with
  | TExecMulti s _ | TExec s _ | THelperInst s _ | THelperExec s _ => Some s
  | _ => None
  end.
Definition top_msgs (op : topop) : list msg :=
  match op with
  | TExecMulti _ ms => ms
  | TExec _ m | THelperInst _ m | THelperExec _ m => [m]
  | _ => []
  end.
Definition flat_op (op : topop) : list pinfo :=
  match op with
  | TWasmSudo c p => flat_prog ESudo None None [] (Some c) [] p
  | _ => flat_map (flat_msg None) (top_msgs op)
  end.

(* ---------- helpers on the implementation's log ---------- *)
Definition call_node (en : rentry) : option N := match en with RCall n _ _ _ _ _ _ _ => Some n | _ => None end.
Fixpoint call_nodes (tr : trace) : list N :=
  match tr with [] => [] | en :: r => match call_node en with Some n => n :: call_nodes r | None => call_nodes r end end.
Fixpoint find_call (n : N) (tr : trace) : option rentry :=
  match tr with
  | [] => None
  | en :: r => match call_node en with Some n' => if n' =? n then Some en else find_call n r | None => find_call n r end
  end.
Definition callee_of (en : rentry) : text := match en with RCall _ _ c _ _ _ _ _ => c | _ => [] end.
Fixpoint find_info (n : N) (l : list pinfo) : option pinfo :=
  match l with [] => None | p :: r => if pi_node p =? n then Some p else find_info n r end.
Definition memN (n : N) (l : list N) : bool := existsb (N.eqb n) l.

(* l1 is a subsequence of l2 *)
Fixpoint subseq (l1 l2 : list N) : bool :=
  match l1, l2 with
  | [], _ => true
  | _ :: _, [] => false
  | x :: r1, y :: r2 => if x =? y then subseq r1 r2 else subseq l1 r2
  end.
Fixpoint nodup (l : list N) : bool := match l with [] => true | x :: r => negb (memN x r) && nodup r end.

Definition marker (n : N) : bytes := 109 :: dec n.     (* "m<node>": the first write of every scripted body *)
Definition has_marker (s : chain) (c : text) (n : N) : bool :=
  match assoc bcmp (marker n) (cstore_get s c) with Some _ => true | None => false end.

Definition prog_malformed (p : prog) : bool :=
  match p with
  | Prog _ _ (OResp attrs events _ _) => match verify_response attrs events with Some _ => true | None => false end
  | _ => false
  end.
Definition prog_fails_itself (p : prog) : bool :=
  match p with Prog _ _ OFail => true | _ => prog_malformed p end.
Definition prog_leaf (p : prog) : bool :=
  match p with Prog _ _ (OResp _ _ _ SNil) => true | _ => false end.

Definition first_fail (l : list (N * bool)) : option N :=
  match filter (fun x => negb (snd x)) l with (c, _) :: _ => Some c | [] => None end.

(* ---------- C01: atomic, ordered ---------- *)
Definition root_nodes (op : topop) : list N :=
  flat_map (fun m => match m with MExec _ p _ | MInst _ p _ _ _ _ | MMigrate _ _ p =>
                       match p with Prog n _ _ => [n] end | _ => [] end) (top_msgs op).

(* what a body leaves for key k: the last write / remove of k among its actions *)
Fixpoint last_write (k : bytes) (acts : list action) (cur : option (option bytes)) : option (option bytes) :=
  match acts with
  | [] => cur
  | AWrite k' v :: r => last_write k r (if beqb k k' then Some (Some v) else cur)
  | ARemove k' :: r => last_write k r (if beqb k k' then Some None else cur)
  | _ :: r => last_write k r cur
  end.
Definition written_keys (acts : list action) : list bytes :=
  flat_map (fun a => match a with AWrite k _ | ARemove k => [k] | _ => [] end) acts.
(* a program without sub-messages that succeeded as the only message of a call: every key it touched holds,
   in the committed state, exactly what its last action on that key left *)
Definition leaf_effects_persisted (s : chain) (c : text) (p : prog) : bool :=
  match p with
  | Prog _ acts (OResp _ _ _ SNil) =>
      forallb (fun k => match last_write k acts None with
                        | Some v => obytes_eqb (assoc bcmp k (cstore_get s c)) v
                        | None => true end) (written_keys acts)
  | _ => true
  end.

Definition p_c01 (st : step) : option N :=
  let ok := match st_outcome st with Ok _ => true | _ => false end in
  first_fail [
    (* 5: not Ok => every byte of the raw store is what it was *)
    (5, ok || st_raw_same st);
    (* 6: one response per message *)
    (6, match st_outcome st, st_op st with
        | Ok rs, TExecMulti _ ms => N.of_nat (length rs) =? N.of_nat (length ms)
        | Ok rs, _ => N.of_nat (length rs) =? 1
        | _, _ => true end);
    (* 7: the messages of one execute_multi ran in the given order *)
    (7, subseq (filter (fun n => memN n (root_nodes (st_op st))) (call_nodes (st_trace st))) (root_nodes (st_op st)));
    (* 8: Ok => every root program that ran left its marker (its effects are persisted) unless it was
          a contract instantiated and ... (markers live in the callee's own storage) *)
    (8, negb ok ||
        forallb (fun n => match find_call n (st_trace st) with
                          | Some en => has_marker (st_state st) (callee_of en) n
                          | None => true end) (root_nodes (st_op st)));
    (* 9: Ok => EVERY effect persisted: the writes and removes of a single leaf program are all in the committed state *)
    (9, match st_outcome st, st_op st with
        | Ok _, TExec _ (MExec c p _) => leaf_effects_persisted (st_state st) c p
        | Ok _, TWasmSudo c p => leaf_effects_persisted (st_state st) c p
        | _, _ => true end)
  ].

(* ---------- C02: failed sub-messages leave no trace ---------- *)
(* every reply delivered with Err names a failed sub-message: no program inside it may have left its marker *)
Definition p_c02 (st : step) : option N :=
  let infos := flat_op (st_op st) in
  let ok := match st_outcome st with Ok _ => true | _ => false end in
  first_fail [
    (5, forallb (fun en =>
           match en with
           | RCall n EReply _ _ _ _ _ (Some (_, _, RRErr)) =>
               match find_info n infos with
               | Some pi => forallb (fun n' => match find_call n' (st_trace st) with
                                               | Some en' => negb (has_marker (st_state st) (callee_of en') n')
                                               | None => true end) (pi_inside pi)
               | None => false
               end
           | _ => true
           end) (st_trace st));
    (* 6: a failed top-level call leaves no marker of anything it ran, and the raw store is unchanged *)
    (6, ok || (st_raw_same st &&
               forallb (fun n => match find_call n (st_trace st) with
                                 | Some en => negb (has_marker (st_state st) (callee_of en) n)
                                 | None => true end) (map pi_node infos)));
    (* 7: a program that failed by itself (explicit failure / malformed response) never leaves its marker *)
    (7, forallb (fun pi => negb (prog_fails_itself (pi_prog pi)) ||
                           match find_call (pi_node pi) (st_trace st) with
                           | Some en => negb (has_marker (st_state st) (callee_of en) (pi_node pi))
                           | None => true end) infos)
  ].

(* the (on_ok node, on_err node) pairs of the reply handlers of every sub-message of a tree, at every depth
   (the sub-messages of reply handlers included) *)
Definition prog_node (p : prog) : N := match p with Prog n _ _ => n end.
Fixpoint rpairs_msg (m : msg) : list (N * N) :=
  match m with
  | MExec _ p _ | MInst _ p _ _ _ _ | MMigrate _ _ p => rpairs_prog p
  | _ => []
  end
with rpairs_prog (p : prog) : list (N * N) :=
  match p with Prog _ _ out => match out with OFail => [] | OResp _ _ _ sbs => rpairs_subs sbs end end
with rpairs_subs (l : subs) : list (N * N) :=
  match l with SNil => [] | SCons sb r => rpairs_sub sb ++ rpairs_subs r end
with rpairs_sub (sb : sub) : list (N * N) :=
  match sb with
  | Sub _ _ _ m on_ok on_err => (prog_node on_ok, prog_node on_err) :: rpairs_msg m ++ rpairs_prog on_ok ++ rpairs_prog on_err
  end.
Definition rpairs_op (op : topop) : list (N * N) :=
  match op with
  | TWasmSudo _ p => rpairs_prog p
  | _ => flat_map rpairs_msg (top_msgs op)
  end.

(* no migration anywhere in a tree: the code serving a contract cannot change while the tree runs *)
Fixpoint nomig_msg (m : msg) : bool :=
  match m with
  | MMigrate _ _ _ => false
  | MExec _ p _ | MInst _ p _ _ _ _ => nomig_prog p
  | _ => true
  end
with nomig_prog (p : prog) : bool :=
  match p with Prog _ _ out => match out with OFail => true | OResp _ _ _ sbs => nomig_subs sbs end end
with nomig_subs (l : subs) : bool :=
  match l with SNil => true | SCons sb r => nomig_sub sb && nomig_subs r end
with nomig_sub (sb : sub) : bool :=
  match sb with Sub _ _ _ m on_ok on_err => nomig_msg m && nomig_prog on_ok && nomig_prog on_err end.
Definition nomig_op (op : topop) : bool :=
  match op with TWasmSudo _ p => nomig_prog p | _ => forallb nomig_msg (top_msgs op) end.

(* every sub-message of every program of a tree, with the node of the program that dispatches it *)
Fixpoint dsubs_msg (m : msg) : list (N * sub) :=
  match m with
  | MExec _ p _ | MInst _ p _ _ _ _ | MMigrate _ _ p => dsubs_prog p
  | _ => []
  end
with dsubs_prog (p : prog) : list (N * sub) :=
  match p with Prog n _ out => match out with OFail => [] | OResp _ _ _ sbs => dsubs_subs n sbs end end
with dsubs_subs (d : N) (l : subs) : list (N * sub) :=
  match l with SNil => [] | SCons sb r => dsubs_sub d sb ++ dsubs_subs d r end
with dsubs_sub (d : N) (sb : sub) : list (N * sub) :=
  match sb with Sub _ _ _ m on_ok on_err => (d, sb) :: dsubs_msg m ++ dsubs_prog on_ok ++ dsubs_prog on_err end.
Definition dsubs_op (op : topop) : list (N * sub) :=
  match op with TWasmSudo _ p => dsubs_prog p | _ => flat_map dsubs_msg (top_msgs op) end.

Definition prog_nosubs (p : prog) : bool :=
  match p with Prog _ _ OFail | Prog _ _ (OResp _ _ _ SNil) => true | _ => false end.
Definition call_tag (en : rentry) : N := match en with RCall _ _ _ _ _ _ t _ => t | _ => 0 end.
(* the code table has a code with this tag, and every code with this tag has a reply entry point *)
Definition tag_replies (cl : list (N * code)) (tag : N) : bool :=
  existsb (fun x => c_tag (snd x) =? tag) cl && forallb (fun x => negb (c_tag (snd x) =? tag) || has_reply (snd x)) cl.
(* a reply that is due was invoked: the sub-message is an execute of a program without sub-messages whose body ran *)
Definition due_ok (cl : list (N * code)) (tr : trace) (d : N) (sb : sub) : bool :=
  match sb with
  | Sub _ _ ro (MExec _ p' _) on_ok on_err =>
      match find_call d tr with
      | Some en_d =>
          negb (tag_replies cl (call_tag en_d) && prog_nosubs p' && memN (prog_node p') (call_nodes tr))
          || (if prog_fails_itself p' then negb (wants_err ro) || memN (prog_node on_err) (call_nodes tr)
              else negb (wants_ok ro) || memN (prog_node on_ok) (call_nodes tr))
      | None => true
      end
  | _ => true
  end.

(* ---------- C03: replies ---------- *)
Definition p_c03 (ce : case_env) (st : step) : option N :=
  let infos := flat_op (st_op st) in
  let tr := st_trace st in
  first_fail [
    (* 5: depth first, listed order, each program at most once: the called nodes are a subsequence of the pre-order *)
    (5, nodup (call_nodes tr) && subseq (call_nodes tr) (map pi_node infos));
    (* 6: every reply entry: right contract (the dispatcher), id and payload unchanged, result kind matches
          the branch, the mode allows it, and the dispatcher's own call precedes it *)
    (6, forallb (fun en =>
           match en with
           | RCall n EReply c sender funds _ _ rep =>
               match find_info n infos, rep with
               | Some pi, Some (id, payload, res) =>
                   match pi_rep pi, pi_disp pi with
                   | Some (id', payload', ro, okb), Some d =>
                       (id =? id') && beqb payload payload'
                       && (match res with RROk _ _ => okb && wants_ok ro | RRErr => negb okb && wants_err ro end)
                       && (match find_call d tr with Some pen => teqb (callee_of pen) c | None => false end)
                       && (match sender with None => true | Some _ => false end)
                       && (match funds with [] => true | _ => false end)
                   | _, _ => false
                   end
               | _, _ => false
               end
           | RCall n _ _ _ _ _ _ (Some _) => false           (* only reply entries carry a Reply *)
           | _ => true
           end) tr);
    (* 7: a reply with Ok carries exactly the events/data of a LEAF execute sub-message it answers:
          entry event, wasm event iff attributes, renamed custom events; data wrapped *)
    (7, true);
    (* 8: "reply is invoked exactly once ... and never otherwise": of the two reply handlers of a sub-message (the one
          for success, the one for failure) at most one is ever entered, for every sub-message at every depth *)
    (8, forallb (fun pr => negb (memN (fst pr) (call_nodes tr) && memN (snd pr) (call_nodes tr))) (rpairs_op (st_op st)));
    (* 9: "reply is invoked exactly once IF ...": a reply that is due does happen.  For every sub-message that executes a
          program without sub-messages whose body ran, dispatched by a program whose code (the tag of its own call entry,
          looked up in the case's code table) has a reply entry point: if the callee's response is well-formed and the mode
          wants success, the success handler was entered; if the callee failed by itself and the mode wants failure, the
          failure handler was entered.  Judged only when no migration occurs in the call (the serving code cannot change) *)
    (9, negb (nomig_op (st_op st)) ||
        forallb (fun ds => due_ok (ce_codes ce) tr (fst ds) (snd ds)) (dsubs_op (st_op st)))
  ].

(* ---------- C04: events and data of leaf calls ---------- *)
Definition leaf_events (e : ep) (c : text) (code_id : N) (p : prog) : list event :=
  match p with
  | Prog _ _ (OResp attrs events _ _) => base_events c (ep_event e c code_id true) attrs events
  | _ => []
  end.
Definition own_data (p : prog) : option bytes := match p with Prog _ _ (OResp _ _ d _) => d | _ => None end.

Fixpoint is_prefix_ev (a b : list event) : bool :=
  match a, b with
  | [], _ => true
  | x :: a', y :: b' => event_eqb x y && is_prefix_ev a' b'
  | _, _ => false
  end.

(* did the reply entry point run for a direct sub-message of the program [root]? (unknown nodes count as yes) *)
Definition direct_reply_ran (infos : list pinfo) (root : N) (tr : trace) : bool :=
  existsb (fun en => match en with
                     | RCall n EReply _ _ _ _ _ _ =>
                         match find_info n infos with
                         | Some pi => option_eqb N.eqb (pi_disp pi) (Some root)
                         | None => true end
                     | _ => false end) tr.

(* the programs of the reply entry points invoked for DIRECT sub-messages of the program [root], in log order *)
Definition direct_replies (infos : list pinfo) (root : N) (tr : trace) : list prog :=
  flat_map (fun en => match en with
                      | RCall n EReply _ _ _ _ _ _ =>
                          match find_info n infos with
                          | Some pi => if option_eqb N.eqb (pi_disp pi) (Some root) then [pi_prog pi] else []
                          | None => [] end
                      | _ => [] end) tr.
(* process_response's fold: a later Some overrides (an empty one included), None never does *)
Definition last_data (own : option bytes) (reps : list prog) : option bytes :=
  fold_left (fun acc q => or_data (own_data q) acc) reps own.

Definition p_c04 (st : step) : option N :=
  first_fail [
    (* 5: a successful top-level execute / migrate (the migrate event carries the NEW code id) / sudo of a program: the returned events START with the entry-point
          event, the wasm event iff attributes were set, then each custom event renamed with the contract
          attribute first — exactly, in that order *)
    (5, match st_outcome st, st_op st with
        | Ok [(ev, d)], TExec _ (MExec c p _) => is_prefix_ev (leaf_events EExec c 0 p) ev
        | Ok [(ev, d)], TExec _ (MMigrate c nc p) => is_prefix_ev (leaf_events EMigrate c nc p) ev
        | Ok [(ev, d)], TWasmSudo c p => is_prefix_ev (leaf_events ESudo c 0 p) ev
        | _, _ => true end);
    (* 6: leaf programs: events are exactly those, data = own data (execute and migrate: wrapped; sudo: raw) *)
    (6, match st_outcome st, st_op st with
        | Ok [(ev, d)], TExec _ (MExec c p _) =>
            negb (prog_leaf p) || (events_eqb ev (leaf_events EExec c 0 p) && obytes_eqb d (option_map encode_exec_resp (own_data p)))
        | Ok [(ev, d)], TExec _ (MMigrate c nc p) =>
            negb (prog_leaf p) || (events_eqb ev (leaf_events EMigrate c nc p) && obytes_eqb d (option_map encode_exec_resp (own_data p)))
        | Ok [(ev, d)], TWasmSudo c p =>
            negb (prog_leaf p) || (events_eqb ev (leaf_events ESudo c 0 p) && obytes_eqb d (own_data p))
        | _, _ => true end);
    (* 7: instantiate always returns the instantiate-response encoding of (new address, data);
          the new address is the one the contract was told (env.contract.address in its log entry) *)
    (7, match st_outcome st, st_op st with
        | Ok [(ev, d)], TExec _ (MInst code_id p _ _ _ _) =>
            negb (prog_leaf p) ||
            match find_call (match p with Prog n _ _ => n end) (st_trace st) with
            | Some en => events_eqb ev (leaf_events EInst (callee_of en) code_id p)
                         && obytes_eqb d (Some (encode_inst_resp (callee_of en) (match own_data p with Some x => x | None => [] end)))
            | None => false end
        | _, _ => true end);
    (* 8: replies answering a LEAF execute sub-message carry exactly its events and wrapped data *)
    (8, let infos := flat_op (st_op st) in
        forallb (fun en =>
          match en with
          | RCall n EReply _ _ _ _ _ (Some (_, _, RROk ev d)) =>
              match find_info n infos with
              | Some pi =>
                  match pi_inside pi with
                  | [n'] => match find_info n' infos, find_call n' (st_trace st) with
                            | Some pi', Some en' =>
                                negb (prog_leaf (pi_prog pi')) ||
                                match pi_ep pi' with
                                | EExec => events_eqb ev (leaf_events EExec (callee_of en') 0 (pi_prog pi'))
                                           && obytes_eqb d (option_map encode_exec_resp (own_data (pi_prog pi')))
                                | _ => true end
                            | _, _ => true end
                  | _ => true end
              | None => true end
          | _ => true end) (st_trace st));
    (* 9: "a sub-message whose reply is not invoked contributes no data": when no reply entry point was invoked
          for a DIRECT sub-message of the root program, the returned data is the root's own data (execute: wrapped) *)
    (9, let infos := flat_op (st_op st) in
        match st_outcome st, st_op st with
        | Ok [(ev, d)], TExec _ (MExec c p _) =>
            direct_reply_ran infos (match p with Prog n _ _ => n end) (st_trace st)
            || obytes_eqb d (option_map encode_exec_resp (own_data p))
        | Ok [(ev, d)], TExec _ (MMigrate c nc p) =>
            direct_reply_ran infos (match p with Prog n _ _ => n end) (st_trace st)
            || obytes_eqb d (option_map encode_exec_resp (own_data p))
        | Ok [(ev, d)], TWasmSudo c p =>
            direct_reply_ran infos (match p with Prog n _ _ => n end) (st_trace st) || obytes_eqb d (own_data p)
        | _, _ => true end);
    (* 10: "the returned data is the data of the last reply that set data, otherwise the contract's own data": when every
           reply handler invoked for a direct sub-message of the root program is a leaf, the data returned is the last
           Some among the root's own data followed by the own data of those handlers in the order they ran
           (an empty but present data overrides too; execute: wrapped) *)
    (10, let infos := flat_op (st_op st) in
         match st_outcome st, st_op st with
         | Ok [(ev, d)], TExec _ (MExec c p _) =>
             let reps := direct_replies infos (match p with Prog n _ _ => n end) (st_trace st) in
             negb (forallb prog_leaf reps) || obytes_eqb d (option_map encode_exec_resp (last_data (own_data p) reps))
         | Ok [(ev, d)], TExec _ (MMigrate c nc p) =>
             let reps := direct_replies infos (match p with Prog n _ _ => n end) (st_trace st) in
             negb (forallb prog_leaf reps) || obytes_eqb d (option_map encode_exec_resp (last_data (own_data p) reps))
         | Ok [(ev, d)], TWasmSudo c p =>
             let reps := direct_replies infos (match p with Prog n _ _ => n end) (st_trace st) in
             negb (forallb prog_leaf reps) || obytes_eqb d (last_data (own_data p) reps)
         | _, _ => true end)
  ].

(* ---------- C05: sender, own address, block, funds ---------- *)
(* the log entries that follow the call entry of node n *)
Fixpoint after_call (n : N) (tr : trace) : trace :=
  match tr with
  | [] => []
  | en :: r => match call_node en with Some n' => if n' =? n then r else after_call n r | None => after_call n r end
  end.
Definition coin_total (d : text) (cs : coins) : N :=
  fold_right (fun c acc => if teqb (fst c) d then snd c + acc else acc) 0 cs.
(* a program that starts (right after its marker) by asking for the balance of [a] in [d] *)
Definition probe_of (p : prog) : option (text * text) :=
  match p with Prog _ (_ :: AQ (QBalance a d) :: _) _ => Some (a, d) | _ => None end.
(* the failure handler of the FIRST sub-message of a program *)
Definition first_sub_err (p : prog) : option prog :=
  match p with Prog _ _ (OResp _ _ _ (SCons (Sub _ _ _ _ _ on_err) _)) => Some on_err | _ => None end.
(* the amount shown to the program of node n by a balance query made right after its entry *)
Definition first_amount (n : N) (tr : trace) : option N :=
  match after_call n tr with
  | RObs n' (VAmount (Some b)) :: _ => if n' =? n then Some b else None
  | _ => None
  end.
Definition p_c05 (st : step) : option N :=
  let infos := flat_op (st_op st) in
  let tr := st_trace st in
  first_fail [
    (* 5: every entry point and query, at every depth, is told the block of this top-level call *)
    (5, forallb (fun en => match en with
                           | RCall _ _ _ _ _ b _ _ => blk_eqb b (st_blk st)
                           | RQuery _ _ b _ => blk_eqb b (st_blk st)
                           | _ => true end) tr);
    (* 6: sender = the external signer for a top-level message, the DISPATCHING contract for a sub-message;
          funds told = funds attached, verbatim; reply / sudo / migrate carry neither;
          own address = the address the message named *)
    (6, forallb (fun en =>
           match en with
           | RCall n e c sender funds _ _ _ =>
               match find_info n infos with
               | Some pi =>
                   ep_eqb e (pi_ep pi)
                   && (match pi_target pi with Some t => teqb t c | None => true end)
                   && (match e with
                       | EExec | EInst =>
                           coins_eqb funds (pi_funds pi) &&
                           match pi_disp pi, sender with
                           | None, Some x => option_eqb teqb (top_sender (st_op st)) (Some x)
                           | Some d, Some x => match find_call d tr with Some pen => teqb (callee_of pen) x | None => false end
                           | _, None => false
                           end
                       | _ => (match sender with None => true | Some _ => false end)
                              && (match funds with [] => true | _ => false end)
                       end)
               | None => false
               end
           | _ => true
           end) tr);
    (* 7: funds told about have ALREADY been moved: a callee that starts by asking for its own balance in an
          attached denomination is shown at least the total attached in that denomination *)
    (7, forallb (fun en =>
           match en with
           | RCall n EExec c _ funds _ _ _ =>
               match funds, find_info n infos with
               | _ :: _, Some pi =>
                   match probe_of (pi_prog pi) with
                   | Some (a, d) =>
                       negb (teqb a c) ||
                       match after_call n tr with
                       | RObs n' (VAmount (Some b)) :: _ => negb (n' =? n) || (coin_total d funds <=? b)
                       | _ => true end
                   | None => true end
               | _, _ => true end
           | _ => true
           end) tr);
    (* 8: "attached funds ... are returned if the call fails": a failure handler (reply with Err) of the FIRST sub-message
          of a program whose body starts by asking for its own balance, and which asks for the same balance itself, is
          shown exactly the amount the body was shown: nothing moves funds between the body and its first dispatch, and
          a failed sub-message gives everything back.  Skipped unless every shape condition and both observations are there *)
    (8, forallb (fun en =>
           match en with
           | RCall n EReply c _ _ _ _ (Some (_, _, RRErr)) =>
               match find_info n infos with
               | Some pi =>
                   match pi_disp pi with
                   | Some d =>
                       match find_info d infos with
                       | Some pd =>
                           match first_sub_err (pi_prog pd), probe_of (pi_prog pd) with
                           | Some q, Some (a, den) =>
                               negb ((prog_node q =? n) && teqb a c &&
                                     match probe_of q with Some (a', den') => teqb a' a && teqb den' den | None => false end)
                               || match first_amount d tr, first_amount n tr with
                                  | Some b1, Some b2 => b1 =? b2
                                  | _, _ => true end
                           | _, _ => true end
                       | None => true end
                   | None => true end
               | None => true end
           | _ => true
           end) tr)
  ].

(* ---------- C13: malformed responses ---------- *)
Definition p_c13 (st : step) : option N :=
  let infos := flat_op (st_op st) in
  let ok := match st_outcome st with Ok _ => true | _ => false end in
  first_fail [
    (* 5: a malformed response at the root of a top-level call that ran: the call fails, nothing is kept *)
    (5, forallb (fun pi => match pi_disp pi with
                           | Some _ => true
                           | None => negb (prog_malformed (pi_prog pi)) ||
                                     match find_call (pi_node pi) (st_trace st) with
                                     | Some _ => negb ok && st_raw_same st
                                     | None => true end
                           end) infos);
    (* 6: a malformed response at ANY depth and entry point: the writes of that call are not kept *)
    (6, forallb (fun pi => negb (prog_malformed (pi_prog pi)) ||
                           match find_call (pi_node pi) (st_trace st) with
                           | Some en => negb (has_marker (st_state st) (callee_of en) (pi_node pi))
                           | None => true end) infos);
    (* 7: ... and none of its sub-messages is dispatched *)
    (7, forallb (fun pi => negb (prog_malformed (pi_prog pi)) ||
                           match pi_prog pi with
                           | Prog _ _ (OResp _ _ _ sbs) => forallb (fun n => negb (memN n (call_nodes (st_trace st)))) (nodes_subs sbs)
                           | _ => true end) infos);
    (* 8: a well-formed leaf response of a successful top-level execute surfaces every attribute / event verbatim *)
    (8, match st_outcome st, st_op st with
        | Ok [(ev, d)], TExec _ (MExec c p _) => prog_malformed p || is_prefix_ev (leaf_events EExec c 0 p) ev
        | _, _ => true end);
    (* 9: "every other attribute key, value and event type is accepted": a program without sub-messages whose response
          passes verify_response, run as the only message of a call (its entry is in the log: the body really ran),
          makes the call succeed *)
    (9, match st_op st with
        | TExec _ (MExec _ p _) | TWasmSudo _ p =>
            negb (prog_leaf p) || prog_malformed p ||
            match find_call (match p with Prog n _ _ => n end) (st_trace st) with
            | Some _ => ok
            | None => true end
        | _ => true end)
  ].

(* ---------- driver: oracle on every step, then correspondence ---------- *)
Fixpoint oracle_steps (f : step -> option N) (steps : list step) (k : N) : option N :=
  match steps with
  | [] => None
  | st :: r => match f st with Some c => Some (k * 16 + c) | None => oracle_steps f r (k + 1) end
  end.

Definition check_with (f : step -> option N) (ce : case_env) (steps : list step) : verdict :=
  match oracle_steps f steps 0 with
  | Some c => PropFail c
  | None => cexec ce steps
  end.

Definition c01 := check_with p_c01.
Definition c02 := check_with p_c02.
Definition c03 (ce : case_env) := check_with (p_c03 ce) ce.
Definition c04 := check_with p_c04.
Definition c05 := check_with p_c05.
Definition c13 := check_with p_c13.
