(* Base.v — shared conventions: bytes, their order (Rust Vec<u8>: Ord), outcomes.
   No property theorems here. *)
From Coq Require Export List NArith ZArith Lia Bool.
Export ListNotations.

Definition bytes := list N.

(* Rust `Vec<u8>::cmp`: lexicographic, a proper prefix is smaller. *)
Fixpoint bcmp (a b : bytes) : comparison :=
  match a, b with
  | [], [] => Eq
  | [], _ :: _ => Lt
  | _ :: _, [] => Gt
  | x :: a', y :: b' => match N.compare x y with Eq => bcmp a' b' | c => c end
  end.

Lemma bcmp_eq a b : bcmp a b = Eq <-> a = b.
Proof.
  revert b; induction a as [|x a IH]; intros [|y b]; cbn; try (split; congruence).
  destruct (N.compare_spec x y) as [->|H|H].
  - rewrite IH. split; congruence.
  - split; [discriminate|]. intros E; injection E; intros; subst; lia.
  - split; [discriminate|]. intros E; injection E; intros; subst; lia.
Qed.

Lemma bcmp_anti a b : bcmp b a = CompOpp (bcmp a b).
Proof.
  revert b; induction a as [|x a IH]; intros [|y b]; cbn; try reflexivity.
  rewrite (N.compare_antisym x y). destruct (N.compare x y); cbn; auto.
Qed.

Lemma bcmp_trans a b c : bcmp a b = Lt -> bcmp b c = Lt -> bcmp a c = Lt.
Proof.
  revert b c; induction a as [|x a IH]; intros [|y b] [|z c]; cbn; try congruence.
  destruct (N.compare_spec x y) as [->|Hxy|Hxy]; try discriminate.
  - destruct (N.compare_spec y z) as [->|Hyz|Hyz]; try discriminate; auto. apply IH.
  - intros _. destruct (N.compare_spec y z) as [->|Hyz|Hyz]; try discriminate.
    + intros _. destruct (N.compare_spec x z); try lia; reflexivity.
    + intros _. destruct (N.compare_spec x z); try lia; reflexivity.
Qed.

Definition wf_byte (x : N) : bool := (x <? 256)%N.
Definition wf_bytes (b : bytes) : bool := forallb wf_byte b.

(* run-length encoded byte strings, so that long literals stay short terms *)
Fixpoint rep (x : N) (n : nat) : bytes := match n with O => [] | S n' => x :: rep x n' end.
Definition rle (l : list (N * N)) : bytes := flat_map (fun p => rep (fst p) (N.to_nat (snd p))) l.

Inductive order := Asc | Desc.

(* outcome classes: error *messages* are never modelled *)
Inductive outcome (A : Type) := Ok (a : A) | Err | Panic.
Arguments Ok {A} a. Arguments Err {A}. Arguments Panic {A}.

Definition beqb (a b : bytes) : bool := match bcmp a b with Eq => true | _ => false end.
Lemma beqb_eq a b : beqb a b = true <-> a = b.
Proof. unfold beqb. rewrite <- bcmp_eq. destruct (bcmp a b); split; congruence. Qed.

Fixpoint list_eqb {A} (eqb : A -> A -> bool) (l1 l2 : list A) : bool :=
  match l1, l2 with
  | [], [] => true
  | x :: l1', y :: l2' => eqb x y && list_eqb eqb l1' l2'
  | _, _ => false
  end.

Lemma list_eqb_eq {A} (eqb : A -> A -> bool) :
  (forall a b, eqb a b = true <-> a = b) -> forall l1 l2, list_eqb eqb l1 l2 = true <-> l1 = l2.
Proof.
  intros H. induction l1 as [|x l1 IH]; intros [|y l2]; cbn; try (split; congruence).
  rewrite andb_true_iff, H, IH. split; [intros [-> ->]; reflexivity|intros E; injection E; auto].
Qed.

Definition option_eqb {A} (eqb : A -> A -> bool) (a b : option A) : bool :=
  match a, b with Some x, Some y => eqb x y | None, None => true | _, _ => false end.

(* verdict of one correspondence case: k = index of the first differing / failing observation *)
(* KnownFail c k: the property fails on the implementation's observations at k, and the failing case
   belongs to the known-finding class number c (known_findings.json) *)
Inductive verdict := Agree | Disagree (k : N) | PropFail (k : N) | KnownFail (c k : N).
Inductive tag := Tag (n : N).

Definition pair_eqb {A B} (ea : A -> A -> bool) (eb : B -> B -> bool) (x y : A * B) : bool :=
  ea (fst x) (fst y) && eb (snd x) (snd y).

Fixpoint first_diff {A} (eqb : A -> A -> bool) (l1 l2 : list A) (i : N) : option N :=
  match l1, l2 with
  | [], [] => None
  | x :: l1', y :: l2' => if eqb x y then first_diff eqb l1' l2' (N.succ i) else Some i
  | _, _ => Some i
  end.

Lemma first_diff_refl {A} (eqb : A -> A -> bool) (H : forall a, eqb a a = true) l i :
  first_diff eqb l l i = None.
Proof. revert i; induction l as [|x l IH]; intros i; cbn; [reflexivity|]. rewrite H. apply IH. Qed.

(* text = list of Unicode scalar values (the harness prints str::chars()); addresses and denoms
   are ASCII, so for them code points = bytes.  Compared with bcmp. *)
Definition text := list N.
