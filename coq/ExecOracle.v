(* ExecOracle.v — the run-time oracles of ChkX.v (p_c01 ... p_c13) accept the executor model's OWN runs.
   Part 1: the model's step records, reflexivity of the correspondence, the generator well-formedness
   predicate, static facts about message trees (pre-order lists), case analyses of the executor functions,
   and the first trace invariant: the nodes called are a subsequence of the pre-order of the tree.
   Everything is for ALL environments, states and message trees. *)
From Coq Require Import Sorted.
From Verif Require Import Base OMap Text Proto Bank Exec ExecFacts ExecInv ExecFacts2 ExecIso ChkExec ChkX Registry ExecReg.
Local Open Scope N_scope.

(* ---------- what the model says the harness observes ---------- *)
Definition model_step (ce : case_env) (st : step) (s : chain) : step :=
  let '(tr, o, s') := run_top (mk_env ce (st_blk st)) (st_op st) s in
  {| st_blk := st_blk st; st_op := st_op st; st_trace := tr; st_outcome := o; st_state := s'; st_other := 0;
     st_raw_same := chain_eqb s s' |}.

Definition model_next (ce : case_env) (st : step) (s : chain) : chain :=
  top_state (run_top (mk_env ce (st_blk st)) (st_op st) s).

(* only st_blk and st_op of the input steps are used: the scenario *)
Fixpoint model_steps (ce : case_env) (steps : list step) (s : chain) : list step :=
  match steps with
  | [] => []
  | st :: r => model_step ce st s :: model_steps ce r (model_next ce st s)
  end.

(* ---------- reflexivity of the remaining boolean equalities ---------- *)
Lemma obytes_eqb_refl o : obytes_eqb o o = true.
Proof. destruct o; cbn; [apply beqb_refl|reflexivity]. Qed.
Lemma attr_eqb_refl a : attr_eqb a a = true.
Proof. unfold attr_eqb. rewrite !teqb_refl. reflexivity. Qed.
Lemma event_eqb_refl a : event_eqb a a = true.
Proof. unfold event_eqb. rewrite teqb_refl, (list_eqb_refl attr_eqb attr_eqb_refl). reflexivity. Qed.
Lemma events_eqb_refl l : events_eqb l l = true.
Proof. apply list_eqb_refl, event_eqb_refl. Qed.
Lemma resp_eqb_refl r : resp_eqb r r = true.
Proof. unfold resp_eqb. rewrite events_eqb_refl, obytes_eqb_refl. reflexivity. Qed.
Lemma blk_eqb_refl b : blk_eqb b b = true.
Proof. unfold blk_eqb. rewrite !N.eqb_refl, teqb_refl. reflexivity. Qed.
Lemma rres_eqb_refl r : rres_eqb r r = true.
Proof. destruct r; cbn; [rewrite events_eqb_refl, obytes_eqb_refl|]; reflexivity. Qed.
Lemma ep_eqb_refl a : ep_eqb a a = true.
Proof. destruct a; reflexivity. Qed.
Lemma rep_eqb_refl r : rep_eqb r r = true.
Proof. unfold rep_eqb. rewrite N.eqb_refl, beqb_refl, rres_eqb_refl. reflexivity. Qed.
Lemma obsval_eqb_refl o : obsval_eqb o o = true.
Proof.
  destruct o as [v|l|r|r|r|r|r|r]; cbn [obsval_eqb]; try apply obytes_eqb_refl.
  - apply kvs_eqb_refl.
  - apply option_eqb_refl, N.eqb_refl.
  - apply option_eqb_refl, coins_eqb_refl.
  - apply option_eqb_refl. intros [[a b] c]. cbn. rewrite N.eqb_refl, teqb_refl, (option_eqb_refl teqb teqb_refl). reflexivity.
  - apply option_eqb_refl. intros [[a b] c]. cbn. rewrite N.eqb_refl, teqb_refl, beqb_refl. reflexivity.
Qed.
Lemma rentry_eqb_refl en : rentry_eqb en en = true.
Proof.
  destruct en as [n e c sd f b t r|n c b t|n o|sd t]; cbn [rentry_eqb].
  - rewrite N.eqb_refl, ep_eqb_refl, teqb_refl, (option_eqb_refl teqb teqb_refl), coins_eqb_refl, blk_eqb_refl, N.eqb_refl,
      (option_eqb_refl rep_eqb rep_eqb_refl). reflexivity.
  - rewrite !N.eqb_refl, teqb_refl, blk_eqb_refl. reflexivity.
  - rewrite N.eqb_refl, obsval_eqb_refl. reflexivity.
  - rewrite N.eqb_refl, teqb_refl. reflexivity.
Qed.
Lemma trace_eqb_refl tr : trace_eqb tr tr = true.
Proof. apply list_eqb_refl, rentry_eqb_refl. Qed.
Lemma out_eqb_refl o : out_eqb o o = true.
Proof. destruct o; cbn; auto. apply list_eqb_refl, resp_eqb_refl. Qed.

(* ---------- the correspondence half: the model agrees with itself ---------- *)
Lemma corr_model ce : forall steps s k, corr ce (model_steps ce steps s) s k = None.
Proof.
  induction steps as [|st r IH]; intros s k; cbn [model_steps corr]; [reflexivity|].
  unfold model_step, model_next, top_state.
  destruct (run_top (mk_env ce (st_blk st)) (st_op st) s) as [[tr o] s'] eqn:E.
  cbn [st_blk st_op st_trace st_outcome st_state st_other snd]. rewrite E.
  rewrite trace_eqb_refl, out_eqb_refl, chain_eqb_refl. cbn [negb N.eqb]. apply IH.
Qed.

Lemma first_fail_all_true l : forallb (fun x : N * bool => snd x) l = true -> first_fail l = None.
Proof.
  unfold first_fail. induction l as [|[c b] l IH]; cbn [forallb filter snd]; [reflexivity|].
  intros H. apply andb_true_iff in H as [-> H]. cbn [negb]. apply IH, H.
Qed.

(* an oracle that accepts every model step under an invariant of the threaded state accepts the whole run *)
Lemma oracle_steps_model (f : step -> option N) ce (I : list step -> chain -> Prop) :
  (forall st r s, I (st :: r) s -> f (model_step ce st s) = None /\ I r (model_next ce st s)) ->
  forall steps s k, I steps s -> oracle_steps f (model_steps ce steps s) k = None.
Proof.
  intros H. induction steps as [|st r IH]; intros s k Hi; cbn [model_steps oracle_steps]; [reflexivity|].
  destruct (H st r s Hi) as [-> Hn]. apply IH, Hn.
Qed.

Lemma check_with_model (f : step -> option N) ce steps :
  oracle_steps f (model_steps ce steps empty_chain) 0 = None -> check_with f ce (model_steps ce steps empty_chain) = Agree.
Proof. unfold check_with, cexec. intros ->. rewrite corr_model. reflexivity. Qed.

(* ---------- subsequences ---------- *)
Inductive subl : list N -> list N -> Prop :=
| subl_nil : subl [] []
| subl_both x l1 l2 : subl l1 l2 -> subl (x :: l1) (x :: l2)
| subl_right x l1 l2 : subl l1 l2 -> subl l1 (x :: l2).

Lemma subl_nil_l l : subl [] l.
Proof. induction l; constructor; assumption. Qed.
Lemma subl_refl l : subl l l.
Proof. induction l; constructor; assumption. Qed.
Lemma subl_app a a' b b' : subl a a' -> subl b b' -> subl (a ++ b) (a' ++ b').
Proof. intros H. induction H; cbn; intros Hb; [exact Hb| |]; constructor; auto. Qed.
Lemma subl_app_l a b b' : subl b b' -> subl b (a ++ b').
Proof. intros H. induction a; cbn; [exact H|constructor; assumption]. Qed.
Lemma subl_app_r a a' b : subl a a' -> subl a (a' ++ b).
Proof. intros H. rewrite <- (app_nil_r a). apply subl_app; [exact H|apply subl_nil_l]. Qed.
Lemma subl_in a b x : subl a b -> In x a -> In x b.
Proof. intros H. induction H; cbn; intuition. Qed.
Lemma subl_tail x a b : subl (x :: a) b -> subl a b.
Proof.
  intros H. remember (x :: a) as l eqn:E. revert x a E. induction H; intros y a E; try discriminate.
  - injection E as -> ->. constructor. exact H.
  - constructor. eapply IHsubl. exact E.
Qed.
Lemma subl_subseq a b : subl a b -> subseq a b = true.
Proof.
  revert a. induction b as [|y b IH]; intros a H.
  - inversion H. reflexivity.
  - destruct a as [|x a]; [reflexivity|]. cbn [subseq]. destruct (x =? y) eqn:E.
    + apply IH. inversion H; subst; [assumption|]. eapply subl_tail. eassumption.
    + apply IH. inversion H; subst; [rewrite N.eqb_refl in E; discriminate|assumption].
Qed.
Lemma subl_NoDup a b : subl a b -> NoDup b -> NoDup a.
Proof.
  intros H. induction H; intros Hn; [constructor| |].
  - inversion Hn; subst. constructor; [|auto]. intros Hi. apply H2. eapply subl_in; eassumption.
  - inversion Hn; subst. auto.
Qed.
Lemma subl_filter f a b : subl a b -> subl (filter f a) (filter f b).
Proof.
  intros H. induction H; cbn [filter]; [constructor| |].
  - destruct (f x); [constructor|]; assumption.
  - destruct (f x); [constructor|]; assumption.
Qed.

Lemma memN_in n l : memN n l = true <-> In n l.
Proof.
  unfold memN. rewrite existsb_exists. split.
  - intros [x [Hi E]]. apply N.eqb_eq in E. subst. exact Hi.
  - intros Hi. exists n. split; [exact Hi|apply N.eqb_refl].
Qed.
Lemma nodup_NoDup l : NoDup l -> nodup l = true.
Proof.
  induction 1 as [|x l Hn _ IH]; cbn [nodup]; [reflexivity|]. rewrite IH, andb_true_r.
  destruct (memN x l) eqn:E; [|reflexivity]. apply memN_in in E. contradiction.
Qed.

(* ---------- the pre-order lists of a tree ---------- *)
Fixpoint progs_msg (m : msg) : list prog :=
  match m with
  | MExec _ p _ | MInst _ p _ _ _ _ | MMigrate _ _ p => progs_prog p
  | _ => []
  end
with progs_prog (p : prog) : list prog :=
  match p with Prog _ _ out => p :: match out with OFail => [] | OResp _ _ _ sbs => progs_subs sbs end end
with progs_subs (l : subs) : list prog :=
  match l with SNil => [] | SCons sb r => progs_sub sb ++ progs_subs r end
with progs_sub (sb : sub) : list prog :=
  match sb with Sub _ _ _ m on_ok on_err => progs_msg m ++ progs_prog on_ok ++ progs_prog on_err end.

Definition nodes_out (o : output) : list N := match o with OFail => [] | OResp _ _ _ sbs => nodes_subs sbs end.
Definition flat_out (d : N) (o : output) : list pinfo := match o with OFail => [] | OResp _ _ _ sbs => flat_subs d sbs end.
Definition progs_out (o : output) : list prog := match o with OFail => [] | OResp _ _ _ sbs => progs_subs sbs end.

Definition nodes_op (op : topop) : list N :=
  match op with TWasmSudo _ p => nodes_prog p | _ => flat_map nodes_msg (top_msgs op) end.
Definition progs_op (op : topop) : list prog :=
  match op with TWasmSudo _ p => progs_prog p | _ => flat_map progs_msg (top_msgs op) end.

Lemma flat_nodes :
  (forall m d, map pi_node (flat_msg d m) = nodes_msg m) /\
  (forall p e d rep f t i, map pi_node (flat_prog e d rep f t i p) = nodes_prog p) /\
  (forall o d, map pi_node (flat_out d o) = nodes_out o) /\
  (forall l d, map pi_node (flat_subs d l) = nodes_subs l) /\
  (forall sb d, map pi_node (flat_sub d sb) = nodes_sub sb).
Proof.
  apply exec_mutind; intros; cbn [flat_msg flat_prog flat_out flat_subs flat_sub nodes_msg nodes_prog nodes_out nodes_subs nodes_sub map];
    try reflexivity; auto.
  - (* Prog *) cbn [pi_node]. f_equal. apply (H node).
  - rewrite map_app, H, H0. reflexivity.
  - rewrite !map_app, H, H0, H1. reflexivity.
Qed.

Lemma flat_progs :
  (forall m d, map pi_prog (flat_msg d m) = progs_msg m) /\
  (forall p e d rep f t i, map pi_prog (flat_prog e d rep f t i p) = progs_prog p) /\
  (forall o d, map pi_prog (flat_out d o) = progs_out o) /\
  (forall l d, map pi_prog (flat_subs d l) = progs_subs l) /\
  (forall sb d, map pi_prog (flat_sub d sb) = progs_sub sb).
Proof.
  apply exec_mutind; intros; cbn [flat_msg flat_prog flat_out flat_subs flat_sub progs_msg progs_prog progs_out progs_subs progs_sub map];
    try reflexivity; auto.
  - cbn [pi_prog]. f_equal. apply (H node).
  - rewrite map_app, H, H0. reflexivity.
  - rewrite !map_app, H, H0, H1. reflexivity.
Qed.

Lemma map_flat_map {A B C} (f : B -> C) (g : A -> list B) l : map f (flat_map g l) = flat_map (fun x => map f (g x)) l.
Proof. induction l as [|x l IH]; cbn; [reflexivity|]. rewrite map_app, IH. reflexivity. Qed.

Lemma flat_op_nodes op : map pi_node (flat_op op) = nodes_op op.
Proof.
  destruct op; cbn [flat_op nodes_op top_msgs]; try apply (proj1 (proj2 flat_nodes));
    rewrite map_flat_map; apply flat_map_ext; intros; apply (proj1 flat_nodes).
Qed.
Lemma flat_op_progs op : map pi_prog (flat_op op) = progs_op op.
Proof.
  destruct op; cbn [flat_op progs_op top_msgs]; try apply (proj1 (proj2 flat_progs));
    rewrite map_flat_map; apply flat_map_ext; intros; apply (proj1 flat_progs).
Qed.

(* the node recorded for a program is the program's own node *)
Lemma flat_node_of :
  (forall m d pi, In pi (flat_msg d m) -> node_of (pi_prog pi) = pi_node pi) /\
  (forall p e d rep f t i pi, In pi (flat_prog e d rep f t i p) -> node_of (pi_prog pi) = pi_node pi) /\
  (forall o d pi, In pi (flat_out d o) -> node_of (pi_prog pi) = pi_node pi) /\
  (forall l d pi, In pi (flat_subs d l) -> node_of (pi_prog pi) = pi_node pi) /\
  (forall sb d pi, In pi (flat_sub d sb) -> node_of (pi_prog pi) = pi_node pi).
Proof.
  apply exec_mutind; intros; cbn [flat_msg flat_prog flat_out flat_subs flat_sub In] in *; try contradiction; eauto.
  - destruct H0 as [<-|Hi]; [reflexivity|]. eapply (H node). exact Hi.
  - apply in_app_or in H1 as [Hi|Hi]; eauto.
  - apply in_app_or in H2 as [Hi|Hi]; [eauto|]. apply in_app_or in Hi as [Hi|Hi]; eauto.
Qed.

(* ---------- the generator's well-formedness ---------- *)
(* a key that is the marker of no node *)
Definition not_marker (k : bytes) : Prop := forall n, k <> marker n.
Definition act_ok (a : action) : Prop :=
  match a with AWrite k _ | ARemove k => not_marker k | AQ _ => True end.
(* marker discipline: the first action of a body writes the marker of its node; no other action writes or
   removes a key that is the marker of any node *)
Definition wf_prog (p : prog) : Prop :=
  match p with
  | Prog node (AWrite k _ :: rest) _ => k = marker node /\ Forall act_ok rest
  | _ => False
  end.
(* one top-level call: marker discipline for every program of the tree (sub-messages and reply handlers at
   every depth included).  Uniqueness of the node numbers is a property of the whole scenario. *)
Definition wf_op (op : topop) : Prop := Forall wf_prog (progs_op op).

Definition scenario_nodes (steps : list step) : list N := flat_map (fun st => nodes_op (st_op st)) steps.
(* the generator's guarantee: marker discipline in every call, and the markers of all the nodes of the
   scenario are pairwise different (node numbers are unique per scenario and printed in decimal) *)
Definition wf_scenario (steps : list step) : Prop :=
  Forall (fun st => wf_op (st_op st)) steps /\ NoDup (map marker (scenario_nodes steps)).

(* a boolean sufficient condition, as the generator guarantees it: keys other than the marker come from a pool
   of keys that never start with 'm' *)
Definition starts_m (k : bytes) : bool := match k with 109 :: _ => true | _ => false end.
Definition act_okb (a : action) : bool :=
  match a with AWrite k _ | ARemove k => negb (starts_m k) | AQ _ => true end.
Definition wf_progb (p : prog) : bool :=
  match p with
  | Prog node (AWrite k _ :: rest) _ => beqb k (marker node) && forallb act_okb rest
  | _ => false
  end.
Fixpoint nodupb (l : list bytes) : bool :=
  match l with [] => true | x :: r => negb (existsb (beqb x) r) && nodupb r end.
Definition wf_scenario_b (steps : list step) : bool :=
  forallb (fun st => forallb wf_progb (progs_op (st_op st))) steps && nodupb (map marker (scenario_nodes steps)).

Lemma act_okb_ok a : act_okb a = true -> act_ok a.
Proof.
  destruct a as [k v|k|q]; cbn; auto; intros H n E; subst k; discriminate.
Qed.
Lemma wf_progb_ok p : wf_progb p = true -> wf_prog p.
Proof.
  destruct p as [node [|[k v|k|q] rest] out]; cbn; try discriminate.
  intros H. apply andb_true_iff in H as [H1 H2]. apply beqb_eq in H1. split; [exact H1|].
  apply Forall_forall. intros a Ha. apply act_okb_ok. rewrite forallb_forall in H2. auto.
Qed.
Lemma nodupb_ok l : nodupb l = true -> NoDup l.
Proof.
  induction l as [|x l IH]; cbn [nodupb]; [constructor|]. intros H. apply andb_true_iff in H as [H1 H2].
  constructor; [|auto]. intros Hi. assert (E : existsb (beqb x) l = true).
  { apply existsb_exists. exists x. split; [exact Hi|apply beqb_refl]. }
  rewrite E in H1. discriminate.
Qed.
Lemma wf_scenario_b_ok steps : wf_scenario_b steps = true -> wf_scenario steps.
Proof.
  unfold wf_scenario_b, wf_scenario. intros H. apply andb_true_iff in H as [H1 H2]. split; [|apply nodupb_ok, H2].
  apply Forall_forall. intros st Hs. rewrite forallb_forall in H1. specialize (H1 st Hs).
  apply Forall_forall. intros p Hp. apply wf_progb_ok. rewrite forallb_forall in H1. auto.
Qed.

Lemma NoDup_map_inv {A B} (f : A -> B) l : NoDup (map f l) -> NoDup l.
Proof.
  induction l as [|x l IH]; cbn; intros H; [constructor|]. inversion H; subst. constructor; [|auto].
  intros Hi. apply H2. apply in_map. exact Hi.
Qed.

(* ---------- case analyses of the executor functions ---------- *)
Definition hdr (e : env) (node : N) (entry : ep) (c : text) (sender : option text) (funds : coins)
           (co : code) (rep : option (N * bytes * rres)) : rentry :=
  RCall node entry c sender funds (blk e) (c_tag co) rep.

Definition body_tr (e : env) (s : chain) (node : N) (c : text) (acts : list action) : trace :=
  fst (run_actions e s node (cstore_get s c) acts).
Definition body_st (e : env) (s : chain) (node : N) (c : text) (acts : list action) : chain :=
  cstore_set s c (snd (run_actions e s node (cstore_get s c) acts)).

Lemma run_prog_cases e entry c sender funds rep cid rok node acts out s :
  (serving e s c entry = None /\ run_prog e entry c sender funds rep cid rok (Prog node acts out) s = ([], Err)) \/
  (exists co, serving e s c entry = Some co /\ prog_fails_itself (Prog node acts out) = true /\
     run_prog e entry c sender funds rep cid rok (Prog node acts out) s =
     (hdr e node entry c sender funds co rep :: body_tr e s node c acts, Err)) \/
  (exists co attrs events data sbs, serving e s c entry = Some co /\ out = OResp attrs events data sbs /\
     verify_response attrs events = None /\
     run_prog e entry c sender funds rep cid rok (Prog node acts out) s =
     let (tr_s, r) := process_subs e c sbs data (body_st e s node c acts) in
     (hdr e node entry c sender funds co rep :: body_tr e s node c acts ++ tr_s,
      match r with
      | Ok ((ev, d), s2) => Ok ((base_events c (ep_event entry c cid rok) attrs events ++ ev, d), s2)
      | Err => Err | Panic => Panic end)).
Proof.
  unfold serving, body_tr, body_st, hdr. cbn [run_prog].
  destruct (lookup c (reg s)) as [cd|]; [|left; auto].
  destruct (find_code (cd_code cd) (codes e)) as [co|]; [|left; auto].
  destruct (ep_available co entry); cbn [negb]; [|left; auto]. right.
  destruct (run_actions e s node (cstore_get s c) acts) as [tr_a own']. cbn [fst snd].
  destruct out as [|attrs events data sbs].
  - left. exists co. auto.
  - destruct (verify_response attrs events) eqn:V.
    + left. exists co. split; [reflexivity|]. split; [cbn; rewrite V; reflexivity|reflexivity].
    + right. exists co, attrs, events, data, sbs. repeat split; auto.
      destruct (process_subs e c sbs data (cstore_set s c own')) as [tr_s [[[ev d] s2]| |]]; reflexivity.
Qed.

Definition msg_prog (m : msg) : option prog :=
  match m with MExec _ p _ | MInst _ p _ _ _ _ | MMigrate _ _ p => Some p | _ => None end.
Definition msg_entry (m : msg) : ep :=
  match m with MInst _ _ _ _ _ _ => EInst | MMigrate _ _ _ => EMigrate | _ => EExec end.
Definition msg_funds (m : msg) : coins :=
  match m with MExec _ _ f | MInst _ _ f _ _ _ => f | _ => [] end.
Definition msg_target (m : msg) : option text :=
  match m with MExec c _ _ | MMigrate c _ _ => Some c | _ => None end.
Definition msg_cid (m : msg) : N :=
  match m with MInst cid _ _ _ _ _ => cid | MMigrate _ cid _ => cid | _ => 0 end.
Definition msg_sender (m : msg) (sender : text) : option text :=
  match m with MMigrate _ _ _ => None | _ => Some sender end.
Definition msg_data (m : msg) (c : text) (d : option bytes) : option bytes :=
  match m with
  | MInst _ _ _ _ _ _ => Some (encode_inst_resp c (match d with Some x => x | None => [] end))
  | _ => option_map encode_exec_resp d
  end.

Lemma flat_msg_prog m p d : msg_prog m = Some p ->
  flat_msg d m = flat_prog (msg_entry m) d None (msg_funds m) (msg_target m) [] p /\ nodes_msg m = nodes_prog p
  /\ progs_msg m = progs_prog p.
Proof. destruct m; cbn; intros H; try discriminate; injection H as ->; auto. Qed.
Lemma flat_msg_leaf m d : msg_prog m = None -> flat_msg d m = [] /\ nodes_msg m = [] /\ progs_msg m = [].
Proof. destruct m; cbn; intros H; try discriminate; auto. Qed.

Definition coin_arrived (e : env) (m : msg) (c : text) (s1 : chain) : Prop :=
  msg_entry m = EExec -> is_valid e c = true /\
  (msg_funds m <> [] -> forall d, coin_total d (msg_funds m) <= bank_balance (bank s1) c d).

Lemma coin_total_tot d cs : coin_total d cs = tot d cs.
Proof.
  induction cs as [|[d' a] cs IH]; cbn [coin_total tot fold_right fst snd]; [reflexivity|].
  unfold coin_total in IH. rewrite IH. unfold teqb. rewrite (beqb_sym d' d). destruct (beqb d d'); lia.
Qed.

Lemma move_funds_cases s from to funds :
  match move_funds s from to funds with
  | Ok s1 => reg s1 = reg s /\ cstore s1 = cstore s /\ (bank_wf (bank s) -> bank_wf (bank s1)) /\
             (bank_wf (bank s) -> funds <> [] -> forall d, coin_total d funds <= bank_balance (bank s1) to d)
  | _ => True
  end.
Proof.
  unfold move_funds. destruct funds as [|f fr].
  { split; [reflexivity|]. split; [reflexivity|]. split; [auto|]. intros _ Hne. contradiction. }
  destruct (bank_send (bank s) from to (f :: fr)) as [b| |] eqn:E; try exact I.
  cbn [reg cstore bank set_bank]. split; [reflexivity|]. split; [reflexivity|]. split.
  - intros Hw. eapply bank_send_wf; eassumption.
  - intros Hw _ d. pose proof (bank_send_spec (bank s) from to (f :: fr) Hw) as S. rewrite E in S.
    destruct S as (_ & _ & _ & Hb & _). rewrite Hb, beqb_refl, coin_total_tot. lia.
Qed.

(* a message that carries a program: either it fails before the contract is entered (nothing logged), or it is
   one contract call from a state with the same contract storages *)
Lemma run_msg_cases e sender m s p : msg_prog m = Some p ->
  (trc (run_msg e sender m s) = [] /\ is_ok (outc (run_msg e sender m s)) = false) \/
  (exists c s1, cstore s1 = cstore s /\ (bank_wf (bank s) -> bank_wf (bank s1)) /\
     (forall t, msg_target m = Some t -> t = c) /\ (bank_wf (bank s) -> coin_arrived e m c s1) /\
     run_msg e sender m s =
     let (tr, r) := run_prog e (msg_entry m) c (msg_sender m sender) (msg_funds m) None (msg_cid m) true p s1 in
     (tr, match r with Ok ((ev, d), s2) => Ok ((ev, msg_data m c d), s2) | Err => Err | Panic => Panic end)).
Proof.
  destruct m as [to amt|amt|c p0 funds|code_id p0 funds label admin salt|c new_code p0|c a|c|ok tag]; cbn [msg_prog];
    intros H; try discriminate; injection H as ->.
  - (* MExec *) cbn [run_msg]. destruct (is_valid e c) eqn:V; cbn [negb]; [|left; auto].
    pose proof (move_funds_cases s sender c funds) as M.
    destruct (move_funds s sender c funds) as [s1| |]; [|left; auto|left; auto].
    destruct M as (_ & Hc & Hw & Hf). right. exists c, s1. split; [exact Hc|]. split; [exact Hw|].
    split; [cbn; intros t E; injection E as ->; reflexivity|]. split.
    { intros Hb _. split; [exact V|]. cbn [msg_funds]. apply Hf, Hb. }
    cbn [msg_entry msg_sender msg_funds msg_cid msg_data].
    destruct (run_prog e EExec c (Some sender) funds None 0 true p s1) as [tr [[[ev d] s2]| |]]; reflexivity.
  - (* MInst *) cbn [run_msg]. destruct label as [|l0 lr]; [left; auto|].
    destruct (register_contract e s code_id sender admin (l0 :: lr) salt) as [[a s1]| |] eqn:R; [|left; auto|left; auto].
    destruct (register_fresh _ _ _ _ _ _ _ _ _ R) as (_ & _ & _ & Hb1 & Hc1).
    pose proof (move_funds_cases s1 sender a funds) as M.
    destruct (move_funds s1 sender a funds) as [s2| |]; [|left; auto|left; auto].
    destruct M as (_ & Hc & Hw & _). right. exists a, s2. split; [congruence|]. split; [rewrite <- Hb1; exact Hw|].
    split; [cbn; discriminate|]. split; [intros _; cbn; discriminate|].
    cbn [msg_entry msg_sender msg_funds msg_cid msg_data].
    destruct (run_prog e EInst a (Some sender) funds None code_id true p s2) as [tr [[[ev d] s3]| |]]; reflexivity.
  - (* MMigrate *) cbn [run_msg]. destruct (is_valid e c); cbn [negb]; [|left; auto].
    destruct (find_code new_code (codes e)); [|left; auto].
    destruct (lookup c (reg s)) as [cd|]; [|left; auto].
    destruct (negb (option_eqb beqb (cd_admin cd) (Some sender))); [left; auto|].
    match goal with |- context [run_prog e EMigrate c None [] None new_code true p ?s1] =>
      right; exists c, s1; split; [reflexivity|]; split; [intros Hb; exact Hb|];
      split; [cbn; intros t E; injection E as ->; reflexivity|]; split; [intros _; cbn; discriminate|];
      cbn [msg_entry msg_sender msg_funds msg_cid msg_data];
      destruct (run_prog e EMigrate c None [] None new_code true p s1) as [tr [[[ev d] s2]| |]]; reflexivity end.
Qed.

(* a message without a program: no contract is entered; contract storages are untouched *)
Lemma run_msg_leaf e sender m s : msg_prog m = None ->
  Forall not_call (trc (run_msg e sender m s)) /\
  forall r s', outc (run_msg e sender m s) = Ok (r, s') ->
    cstore s' = cstore s /\ (bank_wf (bank s) -> bank_wf (bank s')).
Proof.
  assert (Hnil : forall o : outcome (resp * chain), is_ok o = false ->
            Forall not_call (trc (@nil rentry, o)) /\
            forall r s', outc (@nil rentry, o) = Ok (r, s') -> cstore s' = cstore s /\ (bank_wf (bank s) -> bank_wf (bank s'))).
  { intros o Ho. split; [constructor|]. intros r s' H1. cbn in H1. subst o. discriminate. }
  destruct m as [to amt|amt|c p0 funds|code_id p0 funds label admin salt|c new_code p0|c a|c|ok tag]; cbn [msg_prog];
    intros H; try discriminate; cbn [run_msg].
  - destruct (bank_send (bank s) sender to amt) as [b| |] eqn:E; try (apply Hnil; reflexivity).
    split; [constructor|]. intros r s' H1. cbn in H1. injection H1 as _ <-. split; [reflexivity|].
    intros Hw. eapply bank_send_wf; eassumption.
  - destruct (bank_burn (bank s) sender amt) as [b| |] eqn:E; try (apply Hnil; reflexivity).
    split; [constructor|]. intros r s' H1. cbn in H1. injection H1 as _ <-. split; [reflexivity|].
    intros Hw. eapply bank_burn_wf; eassumption.
  - destruct (negb (is_valid e c)); [apply Hnil; reflexivity|].
    destruct (negb (is_valid e a)); [apply Hnil; reflexivity|].
    destruct (lookup c (reg s)) as [cd|]; [|apply Hnil; reflexivity].
    destruct (negb (option_eqb beqb (cd_admin cd) (Some sender))); [apply Hnil; reflexivity|].
    split; [constructor|]. intros r s' H1. cbn in H1. injection H1 as _ <-. auto.
  - destruct (negb (is_valid e c)); [apply Hnil; reflexivity|].
    destruct (lookup c (reg s)) as [cd|]; [|apply Hnil; reflexivity].
    destruct (negb (option_eqb beqb (cd_admin cd) (Some sender))); [apply Hnil; reflexivity|].
    split; [constructor|]. intros r s' H1. cbn in H1. injection H1 as _ <-. auto.
  - split; [repeat constructor|]. destruct ok; intros r s' H1; cbn in H1; try discriminate.
    injection H1 as _ <-. auto.
Qed.

(* ---------- the nodes that were called ---------- *)
Lemma call_nodes_app a b : call_nodes (a ++ b) = call_nodes a ++ call_nodes b.
Proof.
  induction a as [|en a IH]; cbn [call_nodes app]; [reflexivity|]. destruct (call_node en); cbn; rewrite IH; reflexivity.
Qed.
Lemma call_nodes_no_calls tr : Forall not_call tr -> call_nodes tr = [].
Proof.
  induction 1 as [|en tr H _ IH]; [reflexivity|]. cbn [call_nodes]. destruct en; cbn in *; try contradiction; exact IH.
Qed.
Lemma body_tr_no_calls e s node c acts : call_nodes (body_tr e s node c acts) = [].
Proof. apply call_nodes_no_calls, actions_no_calls. Qed.

(* depth first, listed order, each program at most once, nothing else: the nodes called in the run of a tree are
   a subsequence of its pre-order *)
Lemma exec_call_nodes e :
  (forall m sender s, subl (call_nodes (trc (run_msg e sender m s))) (nodes_msg m)) /\
  (forall p entry c sender funds rep cid rok s,
      subl (call_nodes (trc (run_prog e entry c sender funds rep cid rok p s))) (nodes_prog p)) /\
  (forall o c data s, match o with OFail => True | OResp _ _ _ sbs =>
      subl (call_nodes (trc (process_subs e c sbs data s))) (nodes_subs sbs) end) /\
  (forall l c data s, subl (call_nodes (trc (process_subs e c l data s))) (nodes_subs l)) /\
  (forall sb c s, subl (call_nodes (trc (run_sub e c sb s))) (nodes_sub sb)).
Proof.
  assert (Hleaf : forall m sender s, msg_prog m = None -> subl (call_nodes (trc (run_msg e sender m s))) (nodes_msg m)).
  { intros m sender s H. rewrite (call_nodes_no_calls _ (proj1 (run_msg_leaf e sender m s H))). apply subl_nil_l. }
  assert (Hcall : forall m p, msg_prog m = Some p ->
            (forall entry c sender funds rep cid rok s,
                subl (call_nodes (trc (run_prog e entry c sender funds rep cid rok p s))) (nodes_prog p)) ->
            forall sender s, subl (call_nodes (trc (run_msg e sender m s))) (nodes_msg m)).
  { intros m p Hp IH sender s. rewrite (proj1 (proj2 (flat_msg_prog m p None Hp))).
    destruct (run_msg_cases e sender m s p Hp) as [[-> _]|(c & s1 & _ & _ & _ & _ & ->)]; [apply subl_nil_l|].
    specialize (IH (msg_entry m) c (msg_sender m sender) (msg_funds m) None (msg_cid m) true s1).
    destruct (run_prog e (msg_entry m) c (msg_sender m sender) (msg_funds m) None (msg_cid m) true p s1) as [tr r]. exact IH. }
  apply exec_mutind; try (intros; exact I); try (intros; apply Hleaf; reflexivity);
    try (intros; eapply Hcall; [reflexivity|assumption]).
  - (* Prog *) intros node acts out IH entry c sender funds rep cid rok s. cbn [nodes_prog].
    destruct (run_prog_cases e entry c sender funds rep cid rok node acts out s)
      as [[_ ->]|[(co & _ & _ & ->)|(co & attrs & events & data & sbs & _ & -> & _ & ->)]].
    + apply subl_nil_l.
    + cbn [trc fst call_nodes hdr call_node]. rewrite body_tr_no_calls. constructor. apply subl_nil_l.
    + specialize (IH c data (body_st e s node c acts)).
      destruct (process_subs e c sbs data (body_st e s node c acts)) as [tr_s r].
      cbn [trc fst call_nodes hdr call_node] in *. rewrite call_nodes_app, body_tr_no_calls. constructor. exact IH.
  - (* OResp *) intros attrs events data sbs IH c data0 s. apply IH.
  - (* SNil *) intros c data s. cbn. constructor.
  - (* SCons *) intros sb IHsb r IHr c data s. rewrite process_subs_trace, call_nodes_app. cbn [nodes_subs].
    apply subl_app; [apply IHsb|].
    destruct (outc (run_sub e c sb s)) as [[[ev1 d1] s1]| |]; [apply IHr|apply subl_nil_l|apply subl_nil_l].
  - (* Sub *) intros id payload ro m IHm on_ok IHok on_err IHerr c s. rewrite run_sub_trace, call_nodes_app. cbn [nodes_sub].
    apply subl_app; [apply IHm|]. unfold reply_run.
    destruct (outc (run_msg e c m s)) as [[[ev d] s1]| |].
    + destruct (wants_ok ro); [apply subl_app_r, IHok|apply subl_nil_l].
    + destruct (wants_err ro); [apply subl_app_l, IHerr|apply subl_nil_l].
    + apply subl_nil_l.
Qed.

(* ---------- more static facts ---------- *)
Definition subs_nodes_of (p : prog) : list N := match p with Prog _ _ out => nodes_out out end.

Lemma subs_nodes_incl p : incl (subs_nodes_of p) (nodes_prog p).
Proof. destruct p as [n a o]. cbn [subs_nodes_of nodes_prog]. destruct o; intros x Hx; right; exact Hx. Qed.

Lemma incl_app_l3 {A} (x a b : list A) : incl x a -> incl x (a ++ b).
Proof. intros H y Hy. apply in_or_app. left. auto. Qed.
Lemma incl_app_r3 {A} (x a b : list A) : incl x b -> incl x (a ++ b).
Proof. intros H y Hy. apply in_or_app. right. auto. Qed.

(* the nodes of a listed program, and the nodes a reply program answers for, are nodes of the tree *)
Lemma flat_incl :
  (forall m d pi, In pi (flat_msg d m) -> incl (nodes_prog (pi_prog pi)) (nodes_msg m) /\ incl (pi_inside pi) (nodes_msg m)) /\
  (forall p e d rep f t i pi, In pi (flat_prog e d rep f t i p) ->
      incl (nodes_prog (pi_prog pi)) (nodes_prog p) /\ incl (pi_inside pi) (i ++ nodes_prog p)) /\
  (forall o d pi, In pi (flat_out d o) -> incl (nodes_prog (pi_prog pi)) (nodes_out o) /\ incl (pi_inside pi) (nodes_out o)) /\
  (forall l d pi, In pi (flat_subs d l) -> incl (nodes_prog (pi_prog pi)) (nodes_subs l) /\ incl (pi_inside pi) (nodes_subs l)) /\
  (forall sb d pi, In pi (flat_sub d sb) -> incl (nodes_prog (pi_prog pi)) (nodes_sub sb) /\ incl (pi_inside pi) (nodes_sub sb)).
Proof.
  apply exec_mutind; try (intros; cbn [flat_msg In] in *; contradiction).
  - intros c p IH funds d pi Hi. exact (IH _ _ _ _ _ _ _ Hi).
  - intros cid p IH funds label admin salt d pi Hi. exact (IH _ _ _ _ _ _ _ Hi).
  - intros c nc p IH d pi Hi. exact (IH _ _ _ _ _ _ _ Hi).
  - (* Prog *) intros node acts o IH e d rep f t i pi Hi. cbn [flat_prog] in Hi. fold (flat_out node o) in Hi.
    cbn [nodes_prog]. fold (nodes_out o). destruct Hi as [<-|Hi].
    + cbn [pi_prog pi_inside nodes_prog]. fold (nodes_out o). split; [apply incl_refl|apply incl_app_l3, incl_refl].
    + destruct (IH node pi Hi) as [A B]. split; [apply incl_tl; exact A|apply incl_app_r3, incl_tl; exact B].
  - intros attrs events data sbs IH d pi Hi. exact (IH d pi Hi).
  - intros sb IH r IHr d pi Hi. cbn [flat_subs nodes_subs] in *. apply in_app_or in Hi as [Hi|Hi].
    + destruct (IH d pi Hi) as [A B]. split; apply incl_app_l3; assumption.
    + destruct (IHr d pi Hi) as [A B]. split; apply incl_app_r3; assumption.
  - intros id payload ro m IHm on_ok IHok on_err IHerr d pi Hi. cbn [flat_sub nodes_sub] in *.
    apply in_app_or in Hi as [Hi|Hi]; [|apply in_app_or in Hi as [Hi|Hi]].
    + destruct (IHm (Some d) pi Hi) as [A B]. split; apply incl_app_l3; assumption.
    + destruct (IHok _ _ _ _ _ _ _ Hi) as [A B]. split; [apply incl_app_r3, incl_app_l3; exact A|].
      intros x Hx. apply B in Hx. rewrite !in_app_iff in *. tauto.
    + destruct (IHerr _ _ _ _ _ _ _ Hi) as [A B]. split; [apply incl_app_r3, incl_app_r3; exact A|].
      intros x Hx. apply B in Hx. rewrite !in_app_iff in *. tauto.
Qed.

Lemma NoDup_app_inv {A} (a b : list A) : NoDup (a ++ b) -> NoDup a /\ NoDup b /\ (forall x, In x a -> In x b -> False).
Proof.
  induction a as [|x a IH]; cbn; intros H.
  - split; [constructor|]. split; [exact H|]. intros x [].
  - inversion H; subst. destruct (IH H3) as (Ha & Hb & Hd). split.
    + constructor; [|exact Ha]. intros Hi. apply H2. apply in_or_app. left. exact Hi.
    + split; [exact Hb|]. intros y [<-|Hy] Hy2; [apply H2; apply in_or_app; right; exact Hy2|eauto].
Qed.

Lemma not_called tr L n : subl (call_nodes tr) L -> ~ In n L -> ~ In n (call_nodes tr).
Proof. intros H Hn Hi. apply Hn. eapply subl_in; eassumption. Qed.

(* ---------- a program that fails by itself dispatches nothing ---------- *)
Definition no_dispatch (infos : list pinfo) (tr : trace) : Prop :=
  forall pi, In pi infos -> prog_fails_itself (pi_prog pi) = true ->
  forall n, In n (subs_nodes_of (pi_prog pi)) -> ~ In n (call_nodes tr).

Lemma exec_no_dispatch e :
  (forall m sender s d, NoDup (nodes_msg m) -> no_dispatch (flat_msg d m) (trc (run_msg e sender m s))) /\
  (forall p entry c sender funds rep cid rok s e' d rep' f t i, NoDup (nodes_prog p) ->
      no_dispatch (flat_prog e' d rep' f t i p) (trc (run_prog e entry c sender funds rep cid rok p s))) /\
  (forall o c data s d, match o with OFail => True | OResp _ _ _ sbs =>
      NoDup (nodes_subs sbs) -> no_dispatch (flat_subs d sbs) (trc (process_subs e c sbs data s)) end) /\
  (forall l c data s d, NoDup (nodes_subs l) -> no_dispatch (flat_subs d l) (trc (process_subs e c l data s))) /\
  (forall sb c s d, NoDup (nodes_sub sb) -> no_dispatch (flat_sub d sb) (trc (run_sub e c sb s))).
Proof.
  destruct (exec_call_nodes e) as (Cm & Cp & _ & Cs & Cb).
  assert (Hleaf : forall m sender s d, msg_prog m = None -> no_dispatch (flat_msg d m) (trc (run_msg e sender m s))).
  { intros m sender s d H pi Hi. rewrite (proj1 (flat_msg_leaf m d H)) in Hi. contradiction. }
  assert (Hcall : forall m p, msg_prog m = Some p ->
            (forall entry c sender funds rep cid rok s e' d rep' f t i, NoDup (nodes_prog p) ->
                no_dispatch (flat_prog e' d rep' f t i p) (trc (run_prog e entry c sender funds rep cid rok p s))) ->
            forall sender s d, NoDup (nodes_msg m) -> no_dispatch (flat_msg d m) (trc (run_msg e sender m s))).
  { intros m p Hp IH sender s d. destruct (flat_msg_prog m p d Hp) as (-> & -> & _). intros Hn.
    destruct (run_msg_cases e sender m s p Hp) as [[-> _]|(c & s1 & _ & _ & _ & _ & ->)]; [intros pi _ _ n _ []|].
    specialize (IH (msg_entry m) c (msg_sender m sender) (msg_funds m) None (msg_cid m) true s1
                   (msg_entry m) d None (msg_funds m) (msg_target m) [] Hn).
    destruct (run_prog e (msg_entry m) c (msg_sender m sender) (msg_funds m) None (msg_cid m) true p s1) as [tr r]. exact IH. }
  apply exec_mutind; try (intros; exact I); try (intros; apply Hleaf; reflexivity);
    try (intros; eapply Hcall; [reflexivity|assumption|assumption]).
  - (* Prog *) intros node acts out IH entry c sender funds rep cid rok s e' d rep' f t i Hn pi Hi Hf n Hin.
    cbn [nodes_prog] in Hn. fold (nodes_out out) in Hn. inversion Hn as [|x l Hnot Hn']; subst.
    cbn [flat_prog] in Hi. fold (flat_out node out) in Hi.
    assert (Hne : n <> node).
    { intros ->. apply Hnot. destruct Hi as [<-|Hi]; [exact Hin|].
      apply (proj1 (proj1 (proj2 (proj2 flat_incl)) out node pi Hi)). apply subs_nodes_incl. exact Hin. }
    destruct (run_prog_cases e entry c sender funds rep cid rok node acts out s)
      as [[_ ->]|[(co & _ & _ & ->)|(co & attrs & events & data & sbs & _ & -> & Hv & ->)]].
    + intros [].
    + cbn [trc fst call_nodes hdr call_node]. rewrite body_tr_no_calls. intros [E|[]]. congruence.
    + specialize (IH c data (body_st e s node c acts) node Hn').
      destruct (process_subs e c sbs data (body_st e s node c acts)) as [tr_s r].
      cbn [trc fst call_nodes hdr call_node] in *. rewrite call_nodes_app, body_tr_no_calls. cbn [app].
      intros [E|Hc]; [congruence|]. destruct Hi as [<-|Hi].
      * cbn [pi_prog prog_fails_itself prog_malformed] in Hf. rewrite Hv in Hf. discriminate.
      * exact (IH pi Hi Hf n Hin Hc).
  - (* OResp *) intros attrs events data sbs IH c data0 s d. apply IH.
  - (* SNil *) intros c data s d _ pi [].
  - (* SCons *) intros sb IHsb r IHr c data s d Hn pi Hi Hf n Hin. cbn [nodes_subs] in Hn.
    destruct (NoDup_app_inv _ _ Hn) as (Hn1 & Hn2 & Hd). rewrite process_subs_trace, call_nodes_app, in_app_iff.
    cbn [flat_subs] in Hi. apply in_app_or in Hi as [Hi|Hi].
    + assert (Hin' : In n (nodes_sub sb)).
      { apply (proj1 (proj2 (proj2 (proj2 (proj2 flat_incl))) sb d pi Hi)), subs_nodes_incl, Hin. }
      intros [Hc|Hc]; [exact (IHsb c s d Hn1 pi Hi Hf n Hin Hc)|].
      destruct (outc (run_sub e c sb s)) as [[[ev1 d1] s1]| |]; [|destruct Hc|destruct Hc].
      eapply not_called; [apply Cs| |exact Hc]. intros Hx. exact (Hd n Hin' Hx).
    + assert (Hin' : In n (nodes_subs r)).
      { apply (proj1 (proj1 (proj2 (proj2 (proj2 flat_incl))) r d pi Hi)), subs_nodes_incl, Hin. }
      intros [Hc|Hc]; [eapply not_called; [apply Cb| |exact Hc]; intros Hx; exact (Hd n Hx Hin')|].
      destruct (outc (run_sub e c sb s)) as [[[ev1 d1] s1]| |]; [|destruct Hc|destruct Hc].
      exact (IHr c (or_data d1 data) s1 d Hn2 pi Hi Hf n Hin Hc).
  - (* Sub *) intros id payload ro m IHm on_ok IHok on_err IHerr c s d Hn pi Hi Hf n Hin. cbn [nodes_sub] in Hn.
    destruct (NoDup_app_inv _ _ Hn) as (Hn1 & Hn23 & Hd1). destruct (NoDup_app_inv _ _ Hn23) as (Hn2 & Hn3 & Hd2).
    rewrite run_sub_trace, call_nodes_app, in_app_iff. unfold reply_run.
    cbn [flat_sub] in Hi. apply in_app_or in Hi as [Hi|Hi]; [|apply in_app_or in Hi as [Hi|Hi]].
    + assert (Hin' : In n (nodes_msg m)).
      { apply (proj1 (proj1 flat_incl m (Some d) pi Hi)), subs_nodes_incl, Hin. }
      intros [Hc|Hc]; [exact (IHm c s (Some d) Hn1 pi Hi Hf n Hin Hc)|].
      destruct (outc (run_msg e c m s)) as [[[ev dd] s1]| |]; [| |destruct Hc].
      * destruct (wants_ok ro); [|destruct Hc]. eapply not_called; [apply Cp| |exact Hc].
        intros Hx. apply (Hd1 n Hin'). apply in_or_app. left. exact Hx.
      * destruct (wants_err ro); [|destruct Hc]. eapply not_called; [apply Cp| |exact Hc].
        intros Hx. apply (Hd1 n Hin'). apply in_or_app. right. exact Hx.
    + assert (Hin' : In n (nodes_prog on_ok)).
      { apply (proj1 (proj1 (proj2 flat_incl) on_ok _ _ _ _ _ _ pi Hi)), subs_nodes_incl, Hin. }
      intros [Hc|Hc].
      { eapply not_called; [apply Cm| |exact Hc]. intros Hx. apply (Hd1 n Hx). apply in_or_app. left. exact Hin'. }
      destruct (outc (run_msg e c m s)) as [[[ev dd] s1]| |]; [| |destruct Hc].
      * destruct (wants_ok ro); [|destruct Hc]. exact (IHok _ _ _ _ _ _ _ _ _ _ _ _ _ _ Hn2 pi Hi Hf n Hin Hc).
      * destruct (wants_err ro); [|destruct Hc]. eapply not_called; [apply Cp| |exact Hc].
        intros Hx. exact (Hd2 n Hin' Hx).
    + assert (Hin' : In n (nodes_prog on_err)).
      { apply (proj1 (proj1 (proj2 flat_incl) on_err _ _ _ _ _ _ pi Hi)), subs_nodes_incl, Hin. }
      intros [Hc|Hc].
      { eapply not_called; [apply Cm| |exact Hc]. intros Hx. apply (Hd1 n Hx). apply in_or_app. right. exact Hin'. }
      destruct (outc (run_msg e c m s)) as [[[ev dd] s1]| |]; [| |destruct Hc].
      * destruct (wants_ok ro); [|destruct Hc]. eapply not_called; [apply Cp| |exact Hc].
        intros Hx. exact (Hd2 n Hx Hin').
      * destruct (wants_err ro); [|destruct Hc]. exact (IHerr _ _ _ _ _ _ _ _ _ _ _ _ _ _ Hn3 pi Hi Hf n Hin Hc).
Qed.

(* ---------- top level ---------- *)
Lemma run_msgs_cons e sender m r s :
  run_msgs e sender (m :: r) s =
  let (tr1, r1) := run_msg e sender m s in
  match r1 with
  | Ok (rs, s1) =>
      let (tr2, r2) := run_msgs e sender r s1 in
      (tr1 ++ tr2, match r2 with Ok (rss, s2) => Ok (rs :: rss, s2) | Err => Err | Panic => Panic end)
  | Err => (tr1, Err) | Panic => (tr1, Panic)
  end.
Proof.
  cbn [run_msgs]. destruct (run_msg e sender m s) as [tr1 [[rs s1]| |]]; try reflexivity.
  destruct (run_msgs e sender r s1) as [tr2 [[rss s2]| |]]; reflexivity.
Qed.

(* what a top-level call returns, in terms of the computation it wraps in `transactional` *)
Lemma top_inner e op s :
  top_trace (run_top e op s) = trc (inner e op s) /\
  top_state (run_top e op s) = match outc (inner e op s) with Ok (_, s') => s' | _ => s end /\
  (is_ok (top_outcome (run_top e op s)) = true -> is_ok (outc (inner e op s)) = true).
Proof.
  unfold top_trace, top_state, top_outcome.
  destruct op as [sender ms|sender m|c p|to amt|sender m|sender m]; cbn [run_top inner].
  - destruct (run_msgs e sender ms s) as [tr [[rs s']| |]]; cbn; auto.
  - destruct (run_msgs e sender [m] s) as [tr [[rs s']| |]]; cbn; auto.
  - destruct (run_prog e ESudo c None [] None 0 true p s) as [tr [[rs s']| |]]; cbn; auto.
  - destruct (negb (is_valid e to)); cbn; auto. destruct (bank_mint (bank s) to amt); cbn; auto.
  - destruct (run_msgs e sender [m] s) as [tr [[rs s']| |]]; cbn; auto.
    destruct (helper_inst_addr (snd (first_resp rs))); cbn; auto.
  - destruct (run_msgs e sender [m] s) as [tr [[rs s']| |]]; cbn; auto.
    destruct (helper_exec_data (snd (first_resp rs))); cbn; auto.
Qed.

(* the wrapped computation is a list of messages, one sudo call, or a mint (no contract is entered) *)
Definition op_msgs (op : topop) : option (text * list msg) :=
  match op with
  | TExecMulti sd ms => Some (sd, ms)
  | TExec sd m | THelperInst sd m | THelperExec sd m => Some (sd, [m])
  | _ => None
  end.
Lemma inner_msgs e op s sd ms : op_msgs op = Some (sd, ms) ->
  inner e op s = run_msgs e sd ms s /\ top_msgs op = ms /\ top_sender op = Some sd /\
  flat_op op = flat_map (flat_msg None) ms /\ nodes_op op = flat_map nodes_msg ms /\ progs_op op = flat_map progs_msg ms.
Proof. destruct op; cbn; intros H; try discriminate; injection H as <- <-; repeat split; reflexivity. Qed.
Lemma inner_mint e to amt s : trc (inner e (TMint to amt) s) = [].
Proof. cbn. destruct (negb (is_valid e to)); [reflexivity|]. destruct (bank_mint (bank s) to amt); reflexivity. Qed.

Lemma msgs_call_nodes e sender : forall ms s, subl (call_nodes (trc (run_msgs e sender ms s))) (flat_map nodes_msg ms).
Proof.
  induction ms as [|m r IH]; intros s; [cbn; constructor|]. rewrite run_msgs_cons. cbn [flat_map].
  pose proof (proj1 (exec_call_nodes e) m sender s) as H1.
  destruct (run_msg e sender m s) as [tr1 [[rs s1]| |]]; cbn [trc fst] in *; try (apply subl_app_r; exact H1).
  specialize (IH s1). destruct (run_msgs e sender r s1) as [tr2 r2]. cbn [trc fst] in *.
  rewrite call_nodes_app. apply subl_app; assumption.
Qed.

Lemma top_call_nodes e op s : subl (call_nodes (top_trace (run_top e op s))) (nodes_op op).
Proof.
  rewrite (proj1 (top_inner e op s)). destruct (op_msgs op) as [[sd ms]|] eqn:E.
  - destruct (inner_msgs e op s sd ms E) as (-> & _ & _ & _ & -> & _). apply msgs_call_nodes.
  - destruct op; try discriminate.
    + cbn [inner nodes_op]. pose proof (proj1 (proj2 (exec_call_nodes e)) p ESudo c None [] None 0 true s) as H.
      destruct (run_prog e ESudo c None [] None 0 true p s) as [tr r]. exact H.
    + rewrite inner_mint. apply subl_nil_l.
Qed.

Lemma no_dispatch_app a b tr : no_dispatch a tr -> no_dispatch b tr -> no_dispatch (a ++ b) tr.
Proof. intros Ha Hb pi Hi. apply in_app_or in Hi as [Hi|Hi]; [exact (Ha pi Hi)|exact (Hb pi Hi)]. Qed.

Lemma msgs_no_dispatch e sender : forall ms s, NoDup (flat_map nodes_msg ms) ->
  no_dispatch (flat_map (flat_msg None) ms) (trc (run_msgs e sender ms s)).
Proof.
  induction ms as [|m r IH]; intros s Hn; [intros pi []|]. rewrite run_msgs_cons. cbn [flat_map] in *.
  destruct (NoDup_app_inv _ _ Hn) as (Hn1 & Hn2 & Hd).
  pose proof (proj1 (exec_no_dispatch e) m sender s None Hn1) as H1.
  pose proof (proj1 (exec_call_nodes e) m sender s) as C1.
  assert (Win : forall pi n, In pi (flat_msg None m) -> In n (subs_nodes_of (pi_prog pi)) -> In n (nodes_msg m)).
  { intros pi n Hi Hin. apply (proj1 (proj1 flat_incl m None pi Hi)), subs_nodes_incl, Hin. }
  destruct (run_msg e sender m s) as [tr1 [[rs s1]| |]]; cbn [trc fst] in *.
  - specialize (IH s1 Hn2). pose proof (msgs_call_nodes e sender r s1) as C2.
    destruct (run_msgs e sender r s1) as [tr2 r2]. cbn [trc fst] in *.
    intros pi Hi Hf n Hin. rewrite call_nodes_app, in_app_iff. apply in_app_or in Hi as [Hi|Hi].
    + intros [Hc|Hc]; [exact (H1 pi Hi Hf n Hin Hc)|].
      eapply not_called; [exact C2| |exact Hc]. intros Hx. exact (Hd n (Win pi n Hi Hin) Hx).
    + assert (Hin' : In n (flat_map nodes_msg r)).
      { apply in_flat_map in Hi as (m' & Hm' & Hi). apply in_flat_map. exists m'. split; [exact Hm'|].
        apply (proj1 (proj1 flat_incl m' None pi Hi)), subs_nodes_incl, Hin. }
      intros [Hc|Hc]; [|exact (IH pi Hi Hf n Hin Hc)].
      eapply not_called; [exact C1| |exact Hc]. intros Hx. exact (Hd n Hx Hin').
  - intros pi Hi Hf n Hin Hc. apply in_app_or in Hi as [Hi|Hi]; [exact (H1 pi Hi Hf n Hin Hc)|].
    apply (subl_in _ _ _ C1) in Hc. apply (Hd n Hc).
    apply in_flat_map in Hi as (m' & Hm' & Hi). apply in_flat_map. exists m'. split; [exact Hm'|].
    apply (proj1 (proj1 flat_incl m' None pi Hi)), subs_nodes_incl, Hin.
  - intros pi Hi Hf n Hin Hc. apply in_app_or in Hi as [Hi|Hi]; [exact (H1 pi Hi Hf n Hin Hc)|].
    apply (subl_in _ _ _ C1) in Hc. apply (Hd n Hc).
    apply in_flat_map in Hi as (m' & Hm' & Hi). apply in_flat_map. exists m'. split; [exact Hm'|].
    apply (proj1 (proj1 flat_incl m' None pi Hi)), subs_nodes_incl, Hin.
Qed.

Lemma top_no_dispatch e op s : NoDup (nodes_op op) -> no_dispatch (flat_op op) (top_trace (run_top e op s)).
Proof.
  intros Hn. rewrite (proj1 (top_inner e op s)). destruct (op_msgs op) as [[sd ms]|] eqn:E.
  - destruct (inner_msgs e op s sd ms E) as (-> & _ & _ & -> & En & _). rewrite En in Hn. apply msgs_no_dispatch, Hn.
  - destruct op; try discriminate.
    + cbn [inner nodes_op flat_op] in *.
      pose proof (proj1 (proj2 (exec_no_dispatch e)) p ESudo c None [] None 0 true s ESudo None None [] (Some c) [] Hn) as H.
      destruct (run_prog e ESudo c None [] None 0 true p s) as [tr r]. exact H.
    + intros pi [].
Qed.

(* ---------- of the two reply handlers of a sub-message at most one is entered (C03 clause 8) ---------- *)
Definition rpairs_out (o : output) : list (N * N) := match o with OFail => [] | OResp _ _ _ sbs => rpairs_subs sbs end.
Definition pairs_within (P : list (N * N)) (L : list N) : Prop := forall a b, In (a, b) P -> In a L /\ In b L.

Lemma prog_node_in p : In (prog_node p) (nodes_prog p).
Proof. destruct p as [n a o]. cbn. left. reflexivity. Qed.

Lemma pairs_within_app P1 P2 L1 L2 : pairs_within P1 L1 -> pairs_within P2 L2 -> pairs_within (P1 ++ P2) (L1 ++ L2).
Proof.
  intros H1 H2 a b Hi. apply in_app_or in Hi as [Hi|Hi]; [destruct (H1 a b Hi)|destruct (H2 a b Hi)]; split; apply in_or_app; auto.
Qed.

Lemma rpairs_within :
  (forall m, pairs_within (rpairs_msg m) (nodes_msg m)) /\
  (forall p, pairs_within (rpairs_prog p) (nodes_prog p)) /\
  (forall o, pairs_within (rpairs_out o) (nodes_out o)) /\
  (forall l, pairs_within (rpairs_subs l) (nodes_subs l)) /\
  (forall sb, pairs_within (rpairs_sub sb) (nodes_sub sb)).
Proof.
  apply exec_mutind; try (intros; intros x y Hxy; exact (match Hxy with end));
    try (intros; cbn [rpairs_msg nodes_msg rpairs_out nodes_out]; assumption).
  - (* Prog *) intros node acts o IH a b Hi. cbn [rpairs_prog] in Hi. fold (rpairs_out o) in Hi. cbn [nodes_prog]. fold (nodes_out o).
    destruct (IH a b Hi). split; right; assumption.
  - (* SCons *) intros sb IH r IHr. cbn [rpairs_subs nodes_subs]. apply pairs_within_app; assumption.
  - (* Sub *) intros id payload ro m IHm on_ok IHok on_err IHerr a b Hi. cbn [rpairs_sub nodes_sub] in *. destruct Hi as [E|Hi].
    + injection E as <- <-. split; apply in_or_app; right; apply in_or_app; [left|right]; apply prog_node_in.
    + exact (pairs_within_app _ _ _ _ IHm (pairs_within_app _ _ _ _ IHok IHerr) a b Hi).
Qed.

Definition once (P : list (N * N)) (tr : trace) : Prop :=
  forall a b, In (a, b) P -> ~ (In a (call_nodes tr) /\ In b (call_nodes tr)).

Lemma once_app P1 P2 tr : once P1 tr -> once P2 tr -> once (P1 ++ P2) tr.
Proof. intros H1 H2 a b Hi. apply in_app_or in Hi as [Hi|Hi]; [exact (H1 a b Hi)|exact (H2 a b Hi)]. Qed.
Lemma once_nil tr : once [] tr. Proof. intros a b []. Qed.
Lemma once_left P L1 L2 t1 t2 : pairs_within P L1 -> (forall x, In x L1 -> In x L2 -> False) ->
  subl (call_nodes t2) L2 -> once P t1 -> once P (t1 ++ t2).
Proof.
  intros W D S H a b Hi [Ha Hb]. destruct (W a b Hi) as [Wa Wb]. apply (H a b Hi). rewrite call_nodes_app, in_app_iff in Ha, Hb. split.
  - destruct Ha as [Ha|Ha]; [exact Ha|]. exfalso. exact (D a Wa (subl_in _ _ _ S Ha)).
  - destruct Hb as [Hb|Hb]; [exact Hb|]. exfalso. exact (D b Wb (subl_in _ _ _ S Hb)).
Qed.
Lemma once_right P L1 L2 t1 t2 : pairs_within P L2 -> (forall x, In x L1 -> In x L2 -> False) ->
  subl (call_nodes t1) L1 -> once P t2 -> once P (t1 ++ t2).
Proof.
  intros W D S H a b Hi [Ha Hb]. destruct (W a b Hi) as [Wa Wb]. apply (H a b Hi). rewrite call_nodes_app, in_app_iff in Ha, Hb. split.
  - destruct Ha as [Ha|Ha]; [|exact Ha]. exfalso. exact (D a (subl_in _ _ _ S Ha) Wa).
  - destruct Hb as [Hb|Hb]; [|exact Hb]. exfalso. exact (D b (subl_in _ _ _ S Hb) Wb).
Qed.
Lemma once_none P L L' tr : pairs_within P L -> (forall x, In x L -> In x L' -> False) -> subl (call_nodes tr) L' -> once P tr.
Proof. intros W D S a b Hi [Ha _]. exact (D a (proj1 (W a b Hi)) (subl_in _ _ _ S Ha)). Qed.

Lemma exec_once e :
  (forall m sender s, NoDup (nodes_msg m) -> once (rpairs_msg m) (trc (run_msg e sender m s))) /\
  (forall p entry c sender funds rep cid rok s, NoDup (nodes_prog p) ->
      once (rpairs_prog p) (trc (run_prog e entry c sender funds rep cid rok p s))) /\
  (forall o c data s, match o with OFail => True | OResp _ _ _ sbs =>
      NoDup (nodes_subs sbs) -> once (rpairs_subs sbs) (trc (process_subs e c sbs data s)) end) /\
  (forall l c data s, NoDup (nodes_subs l) -> once (rpairs_subs l) (trc (process_subs e c l data s))) /\
  (forall sb c s, NoDup (nodes_sub sb) -> once (rpairs_sub sb) (trc (run_sub e c sb s))).
Proof.
  destruct (exec_call_nodes e) as (Cm & Cp & _ & Cs & Cb).
  destruct rpairs_within as (Wm & Wp & _ & Ws & Wb).
  assert (Hleaf : forall m sender s, msg_prog m = None -> once (rpairs_msg m) (trc (run_msg e sender m s))).
  { intros m sender s H. destruct m; cbn in H; try discriminate; apply once_nil. }
  assert (Hcall : forall m p, msg_prog m = Some p ->
            (forall entry c sender funds rep cid rok s, NoDup (nodes_prog p) ->
                once (rpairs_prog p) (trc (run_prog e entry c sender funds rep cid rok p s))) ->
            forall sender s, NoDup (nodes_msg m) -> once (rpairs_msg m) (trc (run_msg e sender m s))).
  { intros m p Hp IH sender s Hn. rewrite (proj1 (proj2 (flat_msg_prog m p None Hp))) in Hn.
    assert (Er : rpairs_msg m = rpairs_prog p) by (destruct m; cbn in Hp; try discriminate; injection Hp as ->; reflexivity).
    rewrite Er. destruct (run_msg_cases e sender m s p Hp) as [[-> _]|(c & s1 & _ & _ & _ & _ & ->)]; [intros a b _ [[] _]|].
    specialize (IH (msg_entry m) c (msg_sender m sender) (msg_funds m) None (msg_cid m) true s1 Hn).
    destruct (run_prog e (msg_entry m) c (msg_sender m sender) (msg_funds m) None (msg_cid m) true p s1) as [tr r]. exact IH. }
  apply exec_mutind; try (intros; exact I); try (intros; apply Hleaf; reflexivity);
    try (intros; eapply Hcall; [reflexivity|assumption|assumption]).
  - (* Prog *) intros node acts out IH entry c sender funds rep cid rok s Hn.
    cbn [nodes_prog] in Hn. fold (nodes_out out) in Hn. inversion Hn as [|x l Hnot Hn']; subst.
    cbn [rpairs_prog]. fold (rpairs_out out).
    destruct (run_prog_cases e entry c sender funds rep cid rok node acts out s)
      as [[_ ->]|[(co & _ & _ & ->)|(co & attrs & events & data & sbs & _ & -> & _ & ->)]].
    + intros a b _ [[] _].
    + intros a b Hi [Ha _]. cbn [trc fst call_nodes hdr call_node] in Ha. rewrite body_tr_no_calls in Ha.
      destruct Ha as [<-|[]]. apply Hnot. exact (proj1 (proj1 (proj2 (proj2 rpairs_within)) out node b Hi)).
    + specialize (IH c data (body_st e s node c acts) Hn').
      destruct (process_subs e c sbs data (body_st e s node c acts)) as [tr_s r]. cbn [trc fst rpairs_out nodes_out] in *.
      intros a b Hi [Ha Hb]. cbn [call_nodes hdr call_node] in Ha, Hb. rewrite call_nodes_app, body_tr_no_calls in Ha, Hb.
      cbn [app] in Ha, Hb. destruct (Ws sbs a b Hi) as [Wa Wb']. apply (IH a b Hi). split.
      * destruct Ha as [<-|Ha]; [contradiction|exact Ha].
      * destruct Hb as [<-|Hb]; [contradiction|exact Hb].
  - (* OResp *) intros attrs events data sbs IH c data0 s. apply IH.
  - (* SNil *) intros c data s _. apply once_nil.
  - (* SCons *) intros sb IHsb r IHr c data s Hn. cbn [nodes_subs rpairs_subs] in *.
    destruct (NoDup_app_inv _ _ Hn) as (Hn1 & Hn2 & Hd). rewrite process_subs_trace. apply once_app.
    + eapply once_left; [apply Wb|exact Hd| |apply IHsb, Hn1].
      destruct (outc (run_sub e c sb s)) as [[[ev1 d1] s1]| |]; [apply Cs|apply subl_nil_l|apply subl_nil_l].
    + eapply once_right; [apply Ws|exact Hd|apply Cb|].
      destruct (outc (run_sub e c sb s)) as [[[ev1 d1] s1]| |]; [apply IHr, Hn2|intros a b _ [[] _]|intros a b _ [[] _]].
  - (* Sub *) intros id payload ro m IHm on_ok IHok on_err IHerr c s Hn. cbn [nodes_sub rpairs_sub] in *.
    destruct (NoDup_app_inv _ _ Hn) as (Hn1 & Hn23 & Hd1). destruct (NoDup_app_inv _ _ Hn23) as (Hn2 & Hn3 & Hd2).
    assert (D12 : forall x, In x (nodes_msg m) -> In x (nodes_prog on_ok) -> False).
    { intros x H1 H2. apply (Hd1 x H1). apply in_or_app. left. exact H2. }
    assert (D13 : forall x, In x (nodes_msg m) -> In x (nodes_prog on_err) -> False).
    { intros x H1 H2. apply (Hd1 x H1). apply in_or_app. right. exact H2. }
    rewrite run_sub_trace. unfold reply_run.
    match goal with |- once _ (_ ++ ?X) => set (R := X) end.
    (* the reply part of the log calls nodes of on_ok only, or of on_err only *)
    assert (HR : (subl (call_nodes R) (nodes_prog on_ok) /\ once (rpairs_prog on_ok) R) \/
                 (subl (call_nodes R) (nodes_prog on_err) /\ once (rpairs_prog on_err) R)).
    { unfold R. destruct (outc (run_msg e c m s)) as [[[ev d] s1]| |].
      - left. destruct (wants_ok ro); [split; [apply Cp|apply IHok, Hn2]|split; [apply subl_nil_l|intros a b _ [[] _]]].
      - right. destruct (wants_err ro); [split; [apply Cp|apply IHerr, Hn3]|split; [apply subl_nil_l|intros a b _ [[] _]]].
      - left. split; [apply subl_nil_l|intros a b _ [[] _]]. }
    clearbody R. intros a b Hi. destruct Hi as [E|Hi].
    + injection E as <- <-. intros [Ha Hb]. rewrite call_nodes_app, in_app_iff in Ha, Hb.
      destruct HR as [[S _]|[S _]].
      * destruct Hb as [Hb|Hb]; [exact (D13 _ (subl_in _ _ _ (Cm m c s) Hb) (prog_node_in on_err))|].
        exact (Hd2 _ (subl_in _ _ _ S Hb) (prog_node_in on_err)).
      * destruct Ha as [Ha|Ha]; [exact (D12 _ (subl_in _ _ _ (Cm m c s) Ha) (prog_node_in on_ok))|].
        exact (Hd2 _ (prog_node_in on_ok) (subl_in _ _ _ S Ha)).
    + revert a b Hi. apply once_app; [|apply once_app].
      * destruct HR as [[S _]|[S _]]; (eapply once_left; [apply Wm| |exact S|apply IHm, Hn1]); [exact D12|exact D13].
      * eapply once_right; [apply Wp|exact D12|apply Cm|]. destruct HR as [[_ O]|[S _]]; [exact O|].
        eapply once_none; [apply Wp| |exact S]. exact Hd2.
      * eapply once_right; [apply Wp|exact D13|apply Cm|]. destruct HR as [[S _]|[_ O]]; [|exact O].
        eapply once_none; [apply Wp| |exact S]. intros x H1 H2. exact (Hd2 x H2 H1).
Qed.

Lemma msgs_once e sender : forall ms s, NoDup (flat_map nodes_msg ms) ->
  once (flat_map rpairs_msg ms) (trc (run_msgs e sender ms s)).
Proof.
  induction ms as [|m r IH]; intros s Hn; [apply once_nil|]. rewrite run_msgs_cons. cbn [flat_map] in *.
  destruct (NoDup_app_inv _ _ Hn) as (Hn1 & Hn2 & Hd).
  pose proof (proj1 (exec_once e) m sender s Hn1) as H1. pose proof (proj1 (exec_call_nodes e) m sender s) as C1.
  assert (Wr : pairs_within (flat_map rpairs_msg r) (flat_map nodes_msg r)).
  { intros a b Hi. apply in_flat_map in Hi as (m' & Hm' & Hi). destruct (proj1 rpairs_within m' a b Hi).
    split; apply in_flat_map; exists m'; auto. }
  destruct (run_msg e sender m s) as [tr1 [[rs s1]| |]]; cbn [trc fst] in *.
  - specialize (IH s1 Hn2). pose proof (msgs_call_nodes e sender r s1) as C2.
    destruct (run_msgs e sender r s1) as [tr2 r2]. cbn [trc fst] in *. apply once_app.
    + eapply once_left; [apply (proj1 rpairs_within)|exact Hd|exact C2|exact H1].
    + eapply once_right; [exact Wr|exact Hd|exact C1|exact IH].
  - apply once_app; [exact H1|]. eapply once_none; [exact Wr| |exact C1]. intros x H2 H3. exact (Hd x H3 H2).
  - apply once_app; [exact H1|]. eapply once_none; [exact Wr| |exact C1]. intros x H2 H3. exact (Hd x H3 H2).
Qed.

Lemma top_once e op s : NoDup (nodes_op op) -> once (rpairs_op op) (top_trace (run_top e op s)).
Proof.
  intros Hn. rewrite (proj1 (top_inner e op s)). destruct (op_msgs op) as [[sd ms]|] eqn:E.
  - destruct (inner_msgs e op s sd ms E) as (-> & Et & _ & _ & En & _). rewrite En in Hn.
    assert (Er : rpairs_op op = flat_map rpairs_msg ms) by (destruct op; cbn in E; try discriminate; injection E as _ <-; reflexivity).
    rewrite Er. apply msgs_once, Hn.
  - destruct op; try discriminate.
    + cbn [inner nodes_op rpairs_op] in *. pose proof (proj1 (proj2 (exec_once e)) p ESudo c None [] None 0 true s Hn) as H.
      destruct (run_prog e ESudo c None [] None 0 true p s) as [tr r]. exact H.
    + apply once_nil.
Qed.
