(* ExecOracleF.v — part 5: funds told about have already been moved (C05 clause 7): in the model's log the entry of
   an execute with attached funds whose program starts (right after its marker) by asking for the callee's own
   balance is followed by an observation of at least the amount attached.  Needs the bank invariant, which every
   run preserves. *)
From Coq Require Import Sorted.
From Verif Require Import Base OMap Text Proto Bank Exec ExecFacts ExecInv ExecFacts2 ExecIso ChkExec ChkX Registry ExecReg
  ExecOracle ExecOracleM.
Local Open Scope N_scope.

Fixpoint all_suffix (P : rentry -> trace -> Prop) (tr : trace) : Prop :=
  match tr with [] => True | en :: r => P en r /\ all_suffix P r end.

Lemma all_suffix_app (P : rentry -> trace -> Prop) a b :
  (forall en post more, P en post -> P en (post ++ more)) -> all_suffix P a -> all_suffix P b -> all_suffix P (a ++ b).
Proof.
  intros St. induction a as [|en a IH]; cbn [all_suffix app]; [auto|]. intros [H1 H2] Hb. split; [apply St, H1|auto].
Qed.
Lemma all_suffix_impl (P Q : rentry -> trace -> Prop) tr : (forall en post, P en post -> Q en post) -> all_suffix P tr -> all_suffix Q tr.
Proof. intros H. induction tr as [|en r IH]; cbn; [auto|]. intros [H1 H2]. auto. Qed.

Definition probe_ok (infos : list pinfo) (en : rentry) (post : trace) : Prop :=
  match en with
  | RCall n EExec c _ funds _ _ _ =>
      funds <> [] -> exists pi, In pi infos /\ pi_node pi = n /\
        forall d, probe_of (pi_prog pi) = Some (c, d) ->
        exists b rest, post = RObs n (VAmount (Some b)) :: rest /\ coin_total d funds <= b
  | _ => True
  end.

Lemma probe_ok_stable infos en post more : probe_ok infos en post -> probe_ok infos en (post ++ more).
Proof.
  destruct en as [n ep c sd f b t r| | |]; cbn [probe_ok]; auto. destruct ep; auto.
  intros H Hne. destruct (H Hne) as (pi & Hi & Hn & Hp). exists pi. split; [exact Hi|]. split; [exact Hn|].
  intros d Hd. destruct (Hp d Hd) as (b0 & rest & -> & Hle). exists b0, (rest ++ more). auto.
Qed.
Lemma probe_ok_mono infos infos' en post : incl infos infos' -> probe_ok infos en post -> probe_ok infos' en post.
Proof.
  intros I. destruct en as [n ep c sd f b t r| | |]; cbn [probe_ok]; auto. destruct ep; auto.
  intros H Hne. destruct (H Hne) as (pi & Hi & Hn & Hp). exists pi. auto.
Qed.
Lemma probe_no_calls infos tr : Forall not_call tr -> all_suffix (probe_ok infos) tr.
Proof.
  induction 1 as [|en tr H _ IH]; cbn [all_suffix]; [exact I|]. split; [|exact IH].
  destruct en; cbn in *; auto. contradiction.
Qed.
Lemma probe_app i1 i2 infos a b : incl i1 infos -> incl i2 infos ->
  all_suffix (probe_ok i1) a -> all_suffix (probe_ok i2) b -> all_suffix (probe_ok infos) (a ++ b).
Proof.
  intros I1 I2 Ha Hb. apply all_suffix_app; [apply probe_ok_stable| |].
  - eapply all_suffix_impl; [|exact Ha]. intros en post. apply probe_ok_mono, I1.
  - eapply all_suffix_impl; [|exact Hb]. intros en post. apply probe_ok_mono, I2.
Qed.

(* the log of one contract call: nothing, or its header, the log of its body, and a well-formed rest *)
Definition fshape (e : env) (entry : ep) (c : text) (sender : option text) (funds : coins)
           (rep : option (N * bytes * rres)) (p : prog) (s : chain) (tr : trace) : Prop :=
  tr = [] \/ exists co rest, tr = hdr e (node_of p) entry c sender funds co rep
                                  :: body_tr e s (node_of p) c match p with Prog _ a _ => a end ++ rest /\
                             all_suffix (probe_ok (tail_infos p)) (body_tr e s (node_of p) c match p with Prog _ a _ => a end ++ rest).

Definition keeps_bank {A} (s : chain) (x : T (A * chain)) : Prop := forall r s', outc x = Ok (r, s') -> bank_wf (bank s').

Lemma exec_probe e :
  (forall m sender s d0, Forall wf_prog (progs_msg m) -> bank_wf (bank s) ->
     all_suffix (probe_ok (flat_msg d0 m)) (trc (run_msg e sender m s)) /\ keeps_bank s (run_msg e sender m s)) /\
  (forall p entry c sender funds rep cid rok s, Forall wf_prog (progs_prog p) -> bank_wf (bank s) ->
     fshape e entry c sender funds rep p s (trc (run_prog e entry c sender funds rep cid rok p s)) /\
     keeps_bank s (run_prog e entry c sender funds rep cid rok p s)) /\
  (forall o : output, match o with OFail => True | OResp _ _ _ sbs =>
     forall c data s d, Forall wf_prog (progs_subs sbs) -> bank_wf (bank s) ->
     all_suffix (probe_ok (flat_subs d sbs)) (trc (process_subs e c sbs data s)) /\ keeps_bank s (process_subs e c sbs data s) end) /\
  (forall l c data s d, Forall wf_prog (progs_subs l) -> bank_wf (bank s) ->
     all_suffix (probe_ok (flat_subs d l)) (trc (process_subs e c l data s)) /\ keeps_bank s (process_subs e c l data s)) /\
  (forall sb c s d, Forall wf_prog (progs_sub sb) -> bank_wf (bank s) ->
     all_suffix (probe_ok (flat_sub d sb)) (trc (run_sub e c sb s)) /\ keeps_bank s (run_sub e c sb s)).
Proof.
  assert (Hleaf : forall m sender s d0, msg_prog m = None -> Forall wf_prog (progs_msg m) -> bank_wf (bank s) ->
            all_suffix (probe_ok (flat_msg d0 m)) (trc (run_msg e sender m s)) /\ keeps_bank s (run_msg e sender m s)).
  { intros m sender s d0 H _ Hb. destruct (run_msg_leaf e sender m s H) as [A B]. split; [apply probe_no_calls, A|].
    intros r s' Ho. exact (proj2 (B r s' Ho) Hb). }
  assert (Hcall : forall m p, msg_prog m = Some p ->
            (forall entry c sender funds rep cid rok s, Forall wf_prog (progs_prog p) -> bank_wf (bank s) ->
               fshape e entry c sender funds rep p s (trc (run_prog e entry c sender funds rep cid rok p s)) /\
               keeps_bank s (run_prog e entry c sender funds rep cid rok p s)) ->
            forall sender s d0, Forall wf_prog (progs_msg m) -> bank_wf (bank s) ->
            all_suffix (probe_ok (flat_msg d0 m)) (trc (run_msg e sender m s)) /\ keeps_bank s (run_msg e sender m s)).
  { intros m p Hp IH sender s d0. destruct (flat_msg_prog m p d0 Hp) as (-> & _ & ->). rewrite flat_prog_eq. intros Hw Hb.
    destruct (run_msg_cases e sender m s p Hp) as [[E1 E2]|(c & s1 & _ & Hb1 & _ & Hca & ->)].
    { rewrite E1. split; [exact I|]. intros r s' Ho. rewrite Ho in E2. discriminate. }
    specialize (Hb1 Hb). specialize (Hca Hb).
    destruct (IH (msg_entry m) c (msg_sender m sender) (msg_funds m) None (msg_cid m) true s1 Hw Hb1) as [Sh Kb].
    destruct (run_prog e (msg_entry m) c (msg_sender m sender) (msg_funds m) None (msg_cid m) true p s1) as [tr r] eqn:Er.
    cbn [trc fst] in *. split.
    2:{ intros r0 s0 Ho. destruct r as [[[ev d] s2]| |]; cbn in Ho; try discriminate. injection Ho as _ <-.
        exact (Kb _ _ eq_refl). }
    destruct Sh as [->|(co & rest & -> & Ht)]; [exact I|]. cbn [all_suffix]. split.
    2:{ eapply all_suffix_impl; [|exact Ht]. intros en post. apply probe_ok_mono, incl_tl, incl_refl. }
    unfold hdr. cbn [probe_ok]. destruct (msg_entry m) eqn:Ee; try exact I. intros Hne.
    exists (root_info EExec d0 None (msg_funds m) (msg_target m) [] p). split; [left; reflexivity|]. split; [reflexivity|].
    cbn [root_info pi_prog]. intros d Hd. destruct (Hca Ee) as [Hv Hbal]. specialize (Hbal Hne d).
    rewrite progs_prog_eq in Hw. inversion Hw as [|x l Hw1 _]; subst.
    destruct p as [node [|a0 [|[k1 v1|k1|q1] acts]] out]; cbn in Hd; try discriminate.
    destruct q1; try discriminate. injection Hd as -> ->.
    destruct a0 as [k0 v0|k0|q0]; cbn in Hw1; try contradiction.
    unfold body_tr. cbn [node_of run_actions run_qact]. rewrite Hv.
    destruct (run_actions e s1 node (insert bcmp k0 v0 (cstore_get s1 c)) acts) as [tr' own']. cbn [fst app].
    exists (bank_balance (bank s1) c d). eexists. split; [reflexivity|exact Hbal]. }
  apply exec_mutind; try (intros; exact I); try (intros; eapply Hleaf; [reflexivity|eassumption|eassumption]);
    try (intros; eapply Hcall; [reflexivity|eassumption|eassumption|eassumption]).
  - (* Prog *) intros node acts out IH entry c sender funds rep cid rok s Hw Hb. unfold fshape, tail_infos. cbn [node_of out_of].
    cbn [progs_prog] in Hw. fold (progs_out out) in Hw. inversion Hw as [|x l Hw1 Hw2]; subst.
    destruct (run_prog_cases e entry c sender funds rep cid rok node acts out s)
      as [[_ ->]|[(co & _ & _ & ->)|(co & attrs & events & data & sbs & _ & -> & _ & ->)]].
    + split; [left; reflexivity|]. intros r s' Ho. discriminate.
    + split; [|intros r s' Ho; discriminate]. right. exists co, []. rewrite app_nil_r. split; [reflexivity|].
      apply probe_no_calls, actions_no_calls.
    + assert (Hb1 : bank_wf (bank (body_st e s node c acts))) by exact Hb.
      destruct (IH c data (body_st e s node c acts) node Hw2 Hb1) as [A B].
      destruct (process_subs e c sbs data (body_st e s node c acts)) as [tr_s r]. cbn [trc fst] in *. split.
      * right. exists co, tr_s. split; [reflexivity|]. cbn [flat_out].
        eapply probe_app; [apply incl_nil_l|apply incl_refl| |exact A]. apply probe_no_calls, actions_no_calls.
      * intros r0 s0 Ho. destruct r as [[[ev d] s2]| |]; cbn in Ho; try discriminate. injection Ho as _ <-. exact (B _ _ eq_refl).
  - (* OResp *) intros attrs events data sbs IH. exact IH.
  - (* SNil *) intros c data s d _ Hb. split; [exact I|]. intros r s' Ho. cbn in Ho. injection Ho as _ <-. exact Hb.
  - (* SCons *) intros sb IHsb r IHr c data s d Hw Hb. cbn [progs_subs flat_subs] in *.
    apply Forall_app_inv in Hw as [Hw1 Hw2]. destruct (IHsb c s d Hw1 Hb) as [A1 B1]. rewrite process_subs_cons.
    destruct (run_sub e c sb s) as [tr1 [[[ev1 d1] s1]| |]]; cbn [trc outc fst snd] in *.
    + specialize (B1 _ _ eq_refl). destruct (IHr c (or_data d1 data) s1 d Hw2 B1) as [A2 B2].
      destruct (process_subs e c r (or_data d1 data) s1) as [tr2 r2]. cbn [trc outc fst snd] in *. split.
      * eapply probe_app; [apply incl_appl, incl_refl|apply incl_appr, incl_refl|exact A1|exact A2].
      * intros r0 s0 Ho. destruct r2 as [[[ev2 d2] s2]| |]; cbn in Ho; try discriminate. injection Ho as _ <-. exact (B2 _ _ eq_refl).
    + split; [|intros r0 s0 Ho; discriminate]. eapply all_suffix_impl; [|exact A1]. intros en post. apply probe_ok_mono, incl_appl, incl_refl.
    + split; [|intros r0 s0 Ho; discriminate]. eapply all_suffix_impl; [|exact A1]. intros en post. apply probe_ok_mono, incl_appl, incl_refl.
  - (* Sub *) intros id payload ro m IHm on_ok IHok on_err IHerr c s d Hw Hb. cbn [progs_sub flat_sub] in *.
    apply Forall_app_inv in Hw as [Hw1 Hw23]. apply Forall_app_inv in Hw23 as [Hw2 Hw3].
    destruct (IHm c s (Some d) Hw1 Hb) as [A1 B1]. rewrite run_sub_spec. unfold reply_run. rewrite !flat_prog_eq.
    set (infos := flat_msg (Some d) m ++
                  (root_info EReply (Some d) (Some (id, payload, ro, true)) [] None (nodes_msg m) on_ok :: tail_infos on_ok) ++
                  root_info EReply (Some d) (Some (id, payload, ro, false)) [] None (nodes_msg m) on_err :: tail_infos on_err).
    assert (I1 : incl (flat_msg (Some d) m) infos) by (apply incl_appl, incl_refl).
    assert (Hrep : forall p rep s0 tr0, incl (tail_infos p) infos ->
              fshape e EReply c None [] rep p s0 tr0 -> all_suffix (probe_ok infos) tr0).
    { intros p rep s0 tr0 Hi [->|(co & rest & -> & Ht)]; [exact I|]. cbn [all_suffix]. split; [exact I|].
      eapply all_suffix_impl; [|exact Ht]. intros en post. apply probe_ok_mono, Hi. }
    destruct (run_msg e c m s) as [tr [[[ev dd] s1]| |]]; cbn [trc outc fst snd] in *.
    + specialize (B1 _ _ eq_refl). destruct (wants_ok ro).
      * destruct (IHok EReply c None [] (Some (id, payload, RROk ev dd)) 0 true s1 Hw2 B1) as [A2 B2].
        destruct (run_prog e EReply c None [] (Some (id, payload, RROk ev dd)) 0 true on_ok s1) as [tr2 r2]. cbn [trc outc fst snd] in *.
        split.
        -- apply all_suffix_app; [apply probe_ok_stable| |].
           ++ eapply all_suffix_impl; [|exact A1]. intros en post. apply probe_ok_mono, I1.
           ++ eapply (Hrep on_ok _ s1); [|exact A2]. unfold infos. intros x Hx. apply in_or_app. right. apply in_or_app. left. right. exact Hx.
        -- intros r0 s0 Ho. destruct r2 as [[[ev2 d2] s2]| |]; cbn in Ho; try discriminate. injection Ho as _ <-. exact (B2 _ _ eq_refl).
      * cbn [trc outc fst snd]. split.
        -- eapply all_suffix_impl; [|exact A1]. intros en post. apply probe_ok_mono, I1.
        -- intros r0 s0 Ho. injection Ho as _ <-. exact B1.
    + destruct (wants_err ro).
      * destruct (IHerr EReply c None [] (Some (id, payload, RRErr)) 0 false s Hw3 Hb) as [A2 B2].
        destruct (run_prog e EReply c None [] (Some (id, payload, RRErr)) 0 false on_err s) as [tr2 r2]. cbn [trc outc fst snd] in *.
        split; [|exact B2].
        apply all_suffix_app; [apply probe_ok_stable| |].
        -- eapply all_suffix_impl; [|exact A1]. intros en post. apply probe_ok_mono, I1.
        -- eapply (Hrep on_err _ s); [|exact A2]. unfold infos. intros x Hx. apply in_or_app. right. apply in_or_app. right. right. exact Hx.
      * cbn [trc outc fst snd]. split; [|intros r0 s0 Ho; discriminate].
        eapply all_suffix_impl; [|exact A1]. intros en post. apply probe_ok_mono, I1.
    + cbn [trc outc fst snd]. split; [|intros r0 s0 Ho; discriminate].
      eapply all_suffix_impl; [|exact A1]. intros en post. apply probe_ok_mono, I1.
Qed.

(* ---------- top level ---------- *)
Lemma msgs_probe e sender : forall ms s, Forall wf_prog (flat_map progs_msg ms) -> bank_wf (bank s) ->
  all_suffix (probe_ok (flat_map (flat_msg None) ms)) (trc (run_msgs e sender ms s)) /\ keeps_bank s (run_msgs e sender ms s).
Proof.
  induction ms as [|m r IH]; intros s Hw Hb.
  - split; [exact I|]. intros rs s' Ho. cbn in Ho. injection Ho as _ <-. exact Hb.
  - rewrite run_msgs_cons. cbn [flat_map] in *. apply Forall_app_inv in Hw as [Hw1 Hw2].
    destruct (proj1 (exec_probe e) m sender s None Hw1 Hb) as [A1 B1].
    destruct (run_msg e sender m s) as [tr1 [[r1 s1]| |]]; cbn [trc outc fst snd] in *.
    + specialize (B1 _ _ eq_refl). destruct (IH s1 Hw2 B1) as [A2 B2].
      destruct (run_msgs e sender r s1) as [tr2 r2]. cbn [trc outc fst snd] in *. split.
      * eapply probe_app; [apply incl_appl, incl_refl|apply incl_appr, incl_refl|exact A1|exact A2].
      * intros rs s' Ho. destruct r2 as [[rss s2]| |]; cbn in Ho; try discriminate. injection Ho as _ <-. exact (B2 _ _ eq_refl).
    + split; [|intros rs s' Ho; discriminate]. eapply all_suffix_impl; [|exact A1]. intros en post. apply probe_ok_mono, incl_appl, incl_refl.
    + split; [|intros rs s' Ho; discriminate]. eapply all_suffix_impl; [|exact A1]. intros en post. apply probe_ok_mono, incl_appl, incl_refl.
Qed.

Lemma top_probe e op s : wf_op op -> bank_wf (bank s) ->
  all_suffix (probe_ok (flat_op op)) (top_trace (run_top e op s)) /\ bank_wf (bank (top_state (run_top e op s))).
Proof.
  unfold wf_op. intros Hw Hb. destruct (top_inner e op s) as (-> & -> & _).
  destruct (op_msgs op) as [[sd ms]|] eqn:E.
  - destruct (inner_msgs e op s sd ms E) as (-> & _ & _ & -> & _ & Ep). rewrite Ep in Hw.
    destruct (msgs_probe e sd ms s Hw Hb) as [A B]. split; [exact A|].
    destruct (outc (run_msgs e sd ms s)) as [[rs s']| |] eqn:Eo; try exact Hb. exact (B _ _ Eo).
  - destruct op; try discriminate.
    + cbn [inner flat_op progs_op] in *.
      destruct (proj1 (proj2 (exec_probe e)) p ESudo c None [] None 0 true s Hw Hb) as [Sh Kb].
      destruct (run_prog e ESudo c None [] None 0 true p s) as [t0 r0]. cbn [trc outc fst snd] in *. split.
      * rewrite flat_prog_eq. destruct Sh as [->|(co & rest & -> & Ht)]; [exact I|]. cbn [all_suffix]. split; [exact I|].
        eapply all_suffix_impl; [|exact Ht]. intros en post. apply probe_ok_mono, incl_tl, incl_refl.
      * destruct r0 as [[r1 s1]| |]; cbn; try exact Hb. exact (Kb _ _ eq_refl).
    + rewrite inner_mint. split; [exact I|]. cbn [inner]. destruct (negb (is_valid e to)); [exact Hb|].
      destruct (bank_mint (bank s) to amt) as [b| |] eqn:Em; cbn; try exact Hb. eapply bank_mint_wf; eassumption.
Qed.

Lemma after_call_suffix (P : rentry -> trace -> Prop) : forall tr, all_suffix P tr -> NoDup (call_nodes tr) ->
  forall en n, In en tr -> call_node en = Some n -> P en (after_call n tr).
Proof.
  induction tr as [|x tr IH]; intros Hall Hn en n Hi Hc; [contradiction|]. destruct Hall as [H1 H2]. cbn [after_call call_nodes] in *.
  destruct Hi as [->|Hi].
  - rewrite Hc, N.eqb_refl. exact H1.
  - destruct (call_node x) as [n'|] eqn:E; [|apply IH; assumption]. inversion Hn as [|y l Hy Hr]; subst.
    destruct (n' =? n) eqn:E2; [|apply IH; assumption]. apply N.eqb_eq in E2. subst n'. exfalso. apply Hy.
    clear - Hi Hc. induction tr as [|z tr IH]; [contradiction|]. cbn [call_nodes]. destruct Hi as [->|Hi].
    + rewrite Hc. left. reflexivity.
    + destruct (call_node z); [right|]; apply IH, Hi.
Qed.
