(* Chk15L.v — the LOWER bound on rewards over whole histories.  A ghost ledger per pair over the current
   PERIOD (from the last moment the displayed delegation was zero, or the delegation was moved away
   entirely): ideal numerator, withdrawals, payments, number of reward updates and their rounding allowance.
   Invariant (outside the class DriftZeroTotal = a reward update found the validator's total at zero while
   the pair held a share):   ideal <= withdrawn + credited + one token per withdrawal + the floors of the
   fixed-point arithmetic (per reward update: one atomic unit + kslack, kslack = one atomic unit while the
   share is within the validator's total, the share in tokens otherwise).  No pinned theorems here. *)
From Verif Require Import Base OMap Bank Dec Staking StakingInv Chk14 StakingHist Chk16 Chk15 Chk15H.
Local Open Scope N_scope.

(* the class predicate of Chk14 (zero_total_with_share) on states *)
Definition zts (s : sstate) (d v : N) : bool :=
  match get_vi v s, get_stake d v s with
  | Some vi, Some sh => (vi_stake vi =? 0) && (0 <? sh_stake sh)
  | _, _ => false
  end.
Lemma zts_world w d v : zero_total_with_share w d v = zts (w_st w) d v. Proof. reflexivity. Qed.

(* rounding allowance of one reward update beyond one atomic unit, in units of 10^-18 atomic unit *)
Definition kslack (s : sstate) (d v : N) : N :=
  if stake_of s d v <=? vstake s v * D18 then D18 else stake_of s d v.

Lemma virtual_credit_lower now last apr comm vs st nr x :
  calculate_rewards now last apr comm vs = SOk nr -> share_of_rewards st vs nr = SOk x -> comm <= D18 -> last <= now ->
  vs <> 0 \/ st = 0 ->
  st * apr * (now / NS - last / NS) * (D18 - comm) <= (x + 1) * YD * D18 + (if st <=? vs * D18 then D18 else st) * YD.
Proof.
  intros Hn Hx Hc Hl Hg. destruct (N.eq_dec st 0) as [Z|NZ]; [subst st; rewrite !N.mul_0_l; apply N.le_0_l|].
  destruct Hg as [Hv|Hv]; [|contradiction].
  pose proof (calc_rewards_value _ _ _ _ _ _ Hn Hc) as [_ C2]. cbn zeta in C2. rewrite secs_eq in C2 by exact Hl.
  apply share_value in Hx as [_ S2]; [|exact Hv].
  set (dl := now / NS - last / NS) in *. set (k := D18 - comm) in *.
  assert (Pv : 0 < vs) by lia. assert (Ps : 0 < st) by lia.
  assert (A1 : vs * apr * dl * k * st < (nr * YD + YD) * st) by (apply N.mul_lt_mono_pos_r; assumption).
  assert (A2 : (nr * st + 1) * YD <= (x + 1) * (vs * D18) * YD) by (apply N.mul_le_mono_r; lia).
  apply N.lt_le_incl. apply (N.mul_lt_mono_pos_l vs); [exact Pv|].
  destruct (st <=? vs * D18) eqn:E.
  - apply N.leb_le in E. assert (A3 : st * YD <= vs * D18 * YD) by (apply N.mul_le_mono_r; exact E). nia.
  - assert (A3 : st * YD <= vs * (st * YD)) by nia. nia.
Qed.

Definition lcr (su : setup) (s s' : sstate) (d v x : N) : Prop :=
  stake_of s d v * su_apr su * (lastns s' v / NS - lastns s v / NS) * kfac su v
  <= (if lastns s' v =? lastns s v then 0 else (x + 1) * YD * D18 + kslack s d v * YD).

Lemma lcr_same su s s' d v x : lastns s' v = lastns s v -> lcr su s s' d v x.
Proof. intros E. unfold lcr. rewrite E, N.sub_diag, N.mul_0_r, N.mul_0_l, N.eqb_refl. apply N.le_refl. Qed.

Lemma update_rewards_credit_lower su now s v s1 :
  comm_ok su -> stakers_ok s -> last_ok now s -> update_rewards (params_of su) now s v = SOk s1 ->
  forall d, exists x, rew_of s1 d v = rew_of s d v + x /\ (zts s d v = false -> lcr su s s1 d v x).
Proof.
  intros Hc Hs Hl H d. pose proof H as H'. apply update_rewards_spec in H' as (vi & comm & Gv & Gc & SB & Vo & Vv).
  destruct SB as (_ & _ & _ & So & Sm).
  assert (L0 : lastns s v = vi_last vi) by (unfold lastns; rewrite Gv; reflexivity).
  assert (L1 : lastns s1 v = N.max now (vi_last vi)) by (unfold lastns; rewrite Vv; reflexivity).
  assert (Ek : kfac su v = D18 - comm).
  { unfold kfac, comm_of. unfold get_val in Gc. cbn [p_vals params_of] in Gc. rewrite Gc. reflexivity. }
  pose proof (Hc v comm Gc) as Hcm.
  destruct (N.le_gt_cases now (vi_last vi)) as [Le|Lt].
  - unfold update_rewards in H. rewrite Gv, Gc in H. replace (now <=? vi_last vi) with true in H by (symmetry; apply N.leb_le, Le).
    injection H as <-. exists 0. rewrite N.add_0_r. split; [reflexivity|]. intros _. apply lcr_same. reflexivity.
  - assert (M : N.max now (vi_last vi) = now) by lia.
    destruct (get_stake d v s) as [sh|] eqn:G.
    + unfold update_rewards in H. rewrite Gv, Gc in H. replace (now <=? vi_last vi) with false in H by (symmetry; apply N.leb_gt, Lt).
      inv_bind H as nr Hnr.
      assert (Cr : exists x, share_of_rewards (sh_stake sh) (vi_stake vi) nr = SOk x /\ rew_of s1 d v = sh_rew sh + x).
      { destruct (nr =? 0) eqn:Z.
        - injection H as <-. apply N.eqb_eq in Z. subst nr. exists 0. split; [apply share_of_zero|].
          unfold rew_of. rewrite get_stake_put_vi, G. lia.
        - destruct (Hs v vi Gv) as [Hnd Hin].
          pose proof (credit_stakers_rew _ _ _ _ _ _ Hnd H d sh) as C. rewrite get_stake_put_vi in C. specialize (C G).
          assert (Md : mem d (vi_stakers vi) = true) by (apply mem_In, Hin; congruence). rewrite Md in C.
          destruct C as (x & Hx & _ & Gx). exists x. split; [exact Hx|]. rewrite (rew_of_get _ _ _ _ Gx). reflexivity. }
      destruct Cr as (x & Hx & Er). exists x. rewrite (rew_of_get _ _ _ _ G). split; [exact Er|].
      intros Hz. unfold lcr. rewrite L1, L0, M. replace (now =? vi_last vi) with false by (symmetry; apply N.eqb_neq; lia).
      unfold kslack, vstake. rewrite (stake_of_get _ _ _ _ G), Gv, Ek.
      apply (virtual_credit_lower now (vi_last vi) (su_apr su) comm (vi_stake vi) (sh_stake sh) nr x); try assumption; [lia|].
      unfold zts in Hz. rewrite Gv, G in Hz. apply andb_false_iff in Hz as [Hz|Hz].
      * left. apply N.eqb_neq, Hz.
      * right. apply N.ltb_ge in Hz. lia.
    + exists 0. rewrite N.add_0_r. split.
      * unfold rew_of. specialize (Sm d v). rewrite G in *. destruct (get_stake d v s1); [discriminate|reflexivity].
      * intros _. unfold lcr, stake_of. rewrite G, !N.mul_0_l. apply N.le_0_l.
Qed.

(* ---------- per operation: entries that persist keep exactly the rewards credited by the reward update ---------- *)

Lemma disp_nonzero_entry s d v : disp s d v <> 0 -> get_stake d v s <> None.
Proof. unfold disp, stake_of. destruct (get_stake d v s); [discriminate|]. intros H. exfalso. apply H. reflexivity. Qed.

Lemma update_rewards_noop P now s v s1 : now <= lastns s v -> update_rewards P now s v = SOk s1 -> s1 = s.
Proof.
  unfold update_rewards, lastns. destruct (get_vi v s) as [vi|]; [|discriminate]. destruct (get_val P v); [|discriminate].
  intros H. replace (now <=? vi_last vi) with true by (symmetry; apply N.leb_le, H). intros E. injection E as <-. reflexivity.
Qed.

Lemma update_stake_rew_eq P now s d v a sub s' : update_stake P now s d v a sub = SOk s' ->
  exists s1, update_rewards P now s v = SOk s1 /\
    (forall d' v', get_stake d' v' s' <> None -> rew_of s' d' v' = rew_of s1 d' v') /\
    (forall v', lastns s' v' = lastns s1 v') /\ now <= lastns s' v.
Proof.
  unfold update_stake. intros H. inv_bind H as s1 Hu. exists s1. split; [exact Hu|].
  pose proof Hu as Hu'. apply update_rewards_spec in Hu' as (vi & comm & Gv & Gc & SB & Vo & Vv). rewrite Vv in H.
  inv_bind H as sh Hsh. inv_bind H as ad Had. inv_bind H as pr Hpr. destruct pr as [st' vs'].
  assert (Esh : sh_rew sh = rew_of s1 d v).
  { unfold rew_of. destruct (get_stake d v s1) as [sh0|]; [injection Hsh as <-; reflexivity|].
    destruct sub; [discriminate|injection Hsh as <-; reflexivity]. }
  cbn [vi_stakers vi_stake vi_last] in H.
  assert (Ln : forall s2 stk vs2, (forall v', get_vi v' s2 = get_vi v' s1) ->
             (forall v', lastns (put_vi v (mkVi stk vs2 (N.max now (vi_last vi))) s2) v' = lastns s1 v') /\
             now <= lastns (put_vi v (mkVi stk vs2 (N.max now (vi_last vi))) s2) v).
  { intros s2 stk vs2 Hg. split.
    - intros v'. unfold lastns. rewrite get_vi_put_vi. destruct (v' =? v) eqn:E; [|rewrite Hg; reflexivity].
      apply N.eqb_eq in E. subst v'. rewrite Vv. reflexivity.
    - unfold lastns. rewrite get_vi_put_vi, N.eqb_refl. cbn [vi_last]. apply N.le_max_l. }
  destruct (st' =? 0); injection H as <-.
  - destruct (Ln (del_stake d v s1) (stakers_remove d (vi_stakers vi)) vs' (fun v' => eq_refl)) as [L1 L2].
    split; [|split; [exact L1|exact L2]].
    intros d' v'. unfold rew_of. rewrite get_stake_put_vi, get_stake_del_stake. destruct (peqb (d', v') (d, v)); [congruence|reflexivity].
  - destruct (Ln (put_stake d v (mkSh st' (sh_rew sh)) s1) (stakers_insert d (vi_stakers vi)) vs' (fun v' => eq_refl)) as [L1 L2].
    split; [|split; [exact L1|exact L2]].
    intros d' v' _. unfold rew_of at 1. rewrite get_stake_put_vi, get_stake_put_stake. destruct (peqb (d', v') (d, v)) eqn:E.
    + apply peqb_spec in E. injection E as -> ->. cbn [sh_rew]. exact Esh.
    + reflexivity.
Qed.

(* the lower half of one validator's phase: other validators untouched; persisting entries of the validator
   hold exactly what the reward update credited *)
Definition vlow (su : setup) (s s' : sstate) (v : N) : Prop :=
  (forall d' v', v' <> v -> get_stake d' v' s' = get_stake d' v' s) /\
  (forall v', v' <> v -> get_vi v' s' = get_vi v' s) /\
  (forall d', get_stake d' v s' <> None ->
     exists x, rew_of s' d' v = rew_of s d' v + x /\ (zts s d' v = false -> lcr su s s' d' v x)).

Lemma vlow_of_update su now s s1 s' v :
  comm_ok su -> stakers_ok s -> last_ok now s -> update_rewards (params_of su) now s v = SOk s1 ->
  (forall d' v', v' <> v -> get_stake d' v' s' = get_stake d' v' s1) ->
  (forall v', v' <> v -> get_vi v' s' = get_vi v' s1) ->
  (forall d', get_stake d' v s' <> None -> rew_of s' d' v = rew_of s1 d' v) -> lastns s' v = lastns s1 v ->
  vlow su s s' v.
Proof.
  intros Hc Hs Hl Hu Hg Hv Hr Hn. pose proof Hu as Hu'. apply update_rewards_spec in Hu' as (vi & comm & _ & _ & SB & Vo & _).
  destruct SB as (_ & _ & _ & So & _).
  split; [intros d' v' E; rewrite (Hg d' v' E); apply So, E|]. split; [intros v' E; rewrite (Hv v' E); apply Vo, E|].
  intros d' Hd. destruct (update_rewards_credit_lower su now s v s1 Hc Hs Hl Hu d') as (x & Ex & Bx).
  exists x. split; [rewrite (Hr d' Hd); exact Ex|]. intros Hz. unfold lcr in *. rewrite Hn. apply Bx, Hz.
Qed.

Lemma update_stake_vlow su now s d v a sub s' :
  comm_ok su -> stakers_ok s -> last_ok now s -> update_stake (params_of su) now s d v a sub = SOk s' -> vlow su s s' v.
Proof.
  intros Hc Hs Hl H. pose proof H as H'. apply update_stake_rew_eq in H' as (s1 & Hu & Hr & Hn & _).
  pose proof H as H2. apply update_stake_spec in H2 as (vi & comm & st' & ns & _ & _ & _ & _ & _ & _ & So & Vo & _).
  pose proof Hu as Hu'. apply update_rewards_spec in Hu' as (vi1 & comm1 & _ & _ & SB & Vo1 & _). destruct SB as (_ & _ & _ & So1 & _).
  eapply vlow_of_update; try eassumption.
  - intros d' v' E. rewrite (So d' v' E). symmetry. apply So1, E.
  - intros v' E. rewrite (Vo v' E). symmetry. apply Vo1, E.
  - intros d' Hd. apply Hr, Hd.
  - apply Hn.
Qed.

Definition wd_of (o : op) (d v : N) : bool :=
  match o with Withdraw d0 v0 => (d0 =? d) && (v0 =? v) | _ => false end.
(* the whole displayed delegation is moved away (possibly onto the same validator): the entry is deleted on the way *)
Definition redel_full (o : op) (s : sstate) (d v : N) : bool :=
  match o with Redelegate d0 v1 _ a _ => (d0 =? d) && (v1 =? v) && (disp s d v <=? a) | _ => false end.

(* the statement of one operation for one pair that is still displayed afterwards *)
Definition low_pair (su : setup) (s s' : sstate) (pd : N) (wd : bool) (d v : N) : Prop :=
  exists x, rew_of s d v + x <= rew_of s' d v + pd * D18 + (if wd then D18 else 0) /\
            (zts s d v = false -> lcr su s s' d v x).

Lemma low_pair_same su s s' d v : rew_of s' d v = rew_of s d v -> lastns s' v = lastns s v -> low_pair su s s' 0 false d v.
Proof. intros E1 E2. exists 0. split; [rewrite E1; lia|]. intros _. apply lcr_same, E2. Qed.

Lemma low_pair_of_vlow su s s' v d v' : vlow su s s' v -> get_stake d v' s' <> None -> low_pair su s s' 0 false d v'.
Proof.
  intros (A1 & A2 & A3) Hd. destruct (N.eq_dec v' v) as [->|Hn].
  - destruct (A3 d Hd) as (x & Ex & Bx). exists x. split; [rewrite Ex; lia|exact Bx].
  - apply low_pair_same; [unfold rew_of; rewrite (A1 d v' Hn); reflexivity|unfold lastns; rewrite (A2 v' Hn); reflexivity].
Qed.

Lemma pay_entry_keep s u rest s' : pay_entry s u rest = SOk s' ->
  (forall d v, get_stake d v s' <> None -> get_stake d v s' = get_stake d v s) /\ (forall v, lastns s' v = lastns s v).
Proof.
  intros H. apply pay_entry_shape in H. cbn zeta in H. destruct H as (s1 & H1 & H2).
  assert (A : (forall d v, get_stake d v s1 <> None -> get_stake d v s1 = get_stake d v s) /\ (forall v, lastns s1 v = lastns s v)).
  { destruct H1 as [->|[(Hn & Hz & [(vi & Gv & ->)|(Gv & ->)])|(Hn & ->)]].
    - split; intros; reflexivity.
    - split.
      + intros d v. rewrite get_stake_put_vi, get_stake_del_stake. destruct (peqb _ _); [congruence|reflexivity].
      + intros v. unfold lastns. rewrite get_vi_put_vi, get_vi_del_stake. destruct (v =? u_val u) eqn:E; [|reflexivity].
        apply N.eqb_eq in E. subst v. rewrite Gv. reflexivity.
    - split; [|intros; reflexivity]. intros d v. rewrite get_stake_del_stake. destruct (peqb _ _); [congruence|reflexivity].
    - split; [|intros; reflexivity]. intros d v. rewrite get_stake_del_stake. destruct (peqb _ _); [congruence|reflexivity]. }
  destruct H2 as [(_ & ->)|(_ & b & _ & ->)]; exact A.
Qed.

Lemma process_queue_from_keep now : forall q s s', process_queue_from now q s = SOk s' ->
  (forall d v, get_stake d v s' <> None -> get_stake d v s' = get_stake d v s) /\ (forall v, lastns s' v = lastns s v).
Proof.
  induction q as [|u q IH]; intros s s' H; cbn [process_queue_from] in H.
  - injection H as <-. split; intros; reflexivity.
  - destruct (u_at u <=? now).
    + inv_bind H as s1 H1. apply pay_entry_keep in H1 as [A1 A2]. apply IH in H as [B1 B2].
      split; [|intros v; rewrite B2; apply A2]. intros d v Hd. rewrite (B1 d v Hd). apply A1. rewrite <- (B1 d v Hd). exact Hd.
    + injection H as <-. split; intros; reflexivity.
Qed.

Lemma lcr_transfer su s sm s' d v x :
  lastns s' v = lastns sm v -> lcr su s sm d v x -> lcr su s s' d v x.
Proof. intros E H. unfold lcr in *. rewrite E. exact H. Qed.

Lemma lcr_rebase su s sm s' d v x :
  get_stake d v sm = get_stake d v s -> get_vi v sm = get_vi v s -> lcr su sm s' d v x -> lcr su s s' d v x.
Proof.
  intros E1 E2 H. unfold lcr, kslack, stake_of, vstake, lastns in *. rewrite <- E1, <- E2. exact H.
Qed.
Lemma zts_rebase s sm d v : get_stake d v sm = get_stake d v s -> get_vi v sm = get_vi v s -> zts sm d v = zts s d v.
Proof. intros E1 E2. unfold zts. rewrite E1, E2. reflexivity. Qed.

Lemma redelegate_low su now s d0 v1 v2 a s' :
  comm_ok su -> stakers_ok s -> last_ok now s ->
  exec_redelegate (params_of su) now s d0 v1 v2 a true = SOk s' ->
  forall d v, get_stake d v s' <> None -> ((d0 =? d) && (v1 =? v) && (disp s d v <=? a)) = false ->
  low_pair su s s' 0 false d v.
Proof.
  intros Hc Hs Hl H d v Hd Hnf. unfold exec_redelegate in H. cbn [negb] in H. inv_bind H as sm H1.
  pose proof (update_stake_stakers_ok _ _ _ _ _ _ _ _ Hs H1) as Hsm. pose proof (update_stake_last_ok _ _ _ _ _ _ _ _ Hl H1) as Hlm.
  pose proof (update_stake_vlow su now s d0 v1 a true sm Hc Hs Hl H1) as (A1 & A2 & A3).
  pose proof (update_stake_vlow su now sm d0 v2 a false s' Hc Hsm Hlm H) as (B1 & B2 & B3).
  destruct (N.eq_dec v2 v1) as [->|Hn12].
  - (* same validator *)
    destruct (N.eq_dec v v1) as [->|Hv]; [|apply low_pair_same;
      [unfold rew_of; rewrite (B1 d v Hv), (A1 d v Hv); reflexivity|unfold lastns; rewrite (B2 v Hv), (A2 v Hv); reflexivity]].
    pose proof H1 as S1. apply update_stake_spec in S1 as (vi & comm & st' & ns & _ & _ & _ & _ & _ & _ & _ & _ & _ & _ & _ & Ens & Hov & Hns & _).
    pose proof H as S2. apply update_stake_spec in S2 as (vi2 & comm2 & st2 & ns2 & _ & _ & _ & _ & _ & Sm2 & _).
    assert (Hm : get_stake d v1 sm <> None).
    { destruct (N.eq_dec d d0) as [->|Hdd].
      - rewrite !N.eqb_refl in Hnf. cbn [andb] in Hnf. apply N.leb_gt in Hnf.
        destruct Hov as (Hov & _). pose proof (floor_le (stake_of s d0 v1)) as Fl. fold (disp s d0 v1) in Fl.
        assert (Hpos : ns <> 0) by (rewrite Ens; unfold D18 in *; nia).
        apply N.eqb_neq in Hpos. rewrite Hpos in Hns. destruct Hns as [r ->]. discriminate.
      - assert (Hp : (d, v1) <> (d0, v1)) by congruence. specialize (Sm2 d v1 Hp).
        destruct (get_stake d v1 s'); [|congruence]. destruct (get_stake d v1 sm); [discriminate|discriminate]. }
    destruct (A3 d Hm) as (x & Ex & Bx).
    apply update_stake_rew_eq in H1 as (_ & _ & _ & _ & Lnow).
    apply update_stake_rew_eq in H as (s1' & Hu2 & Hr2 & Hn2 & _).
    apply update_rewards_noop in Hu2; [|exact Lnow]. subst s1'.
    exists x. split; [rewrite (Hr2 d v1 Hd), Ex; lia|]. intros Hz. apply (lcr_transfer su s sm s'); [apply Hn2|apply Bx, Hz].
  - destruct (N.eq_dec v v1) as [->|Hv1].
    + assert (Hn21 : v1 <> v2) by congruence. rewrite (B1 d v1 Hn21) in Hd. destruct (A3 d Hd) as (x & Ex & Bx).
      exists x. split; [unfold rew_of at 2; rewrite (B1 d v1 Hn21); fold (rew_of sm d v1); rewrite Ex; lia|].
      intros Hz. apply (lcr_transfer su s sm s'); [unfold lastns; rewrite (B2 v1 Hn21); reflexivity|apply Bx, Hz].
    + destruct (N.eq_dec v v2) as [->|Hv2].
      * destruct (B3 d Hd) as (x & Ex & Bx). exists x.
        assert (Em : rew_of sm d v2 = rew_of s d v2) by (unfold rew_of; rewrite (A1 d v2 Hv1); reflexivity).
        split; [rewrite Ex, Em; lia|].
        intros Hz. apply (lcr_rebase su s sm s'); [apply A1, Hv1|apply A2, Hv1|]. apply Bx.
        rewrite (zts_rebase s sm d v2 (A1 d v2 Hv1) (A2 v2 Hv1)). exact Hz.
      * apply low_pair_same; [unfold rew_of; rewrite (B1 d v Hv2), (A1 d v Hv1); reflexivity|
                              unfold lastns; rewrite (B2 v Hv2), (A2 v Hv1); reflexivity].
Qed.

Lemma step_low su w o w' : comm_ok su -> winv su w -> step su w o = SOk w' ->
  forall d v, disp (w_st w') d v <> 0 -> redel_full o (w_st w) d v = false ->
  low_pair su (w_st w) (w_st w') (paid_by o w w' d v) (wd_of o d v) d v.
Proof.
  intros Hc I H d v Hdisp Hnf. pose proof (disp_nonzero_entry _ _ _ Hdisp) as Hd.
  pose proof (inv_stakers _ _ _ I) as Hs. pose proof (inv_last _ _ _ I) as Hl.
  destruct o as [d0 v0 a b|d0 v0 a b|d0 v1 v2 a b|d0 v0|d0 wd|v0 p|dt]; cbn [step] in H; cbn [paid_by wd_of].
  - inv_bind H as s' X. injection H as <-. cbn [w_st] in *. unfold exec_delegate in X.
    destruct (a =? 0); [discriminate|]. destruct (negb b); [discriminate|]. inv_bind X as s1 U. inv_bind X as b1 B. injection X as <-.
    apply (low_pair_of_vlow su (w_st w) s1 v0 d v (update_stake_vlow su _ _ d0 v0 a false s1 Hc Hs Hl U) Hd).
  - inv_bind H as s' X. injection H as <-. cbn [w_st] in *. unfold exec_undelegate in X.
    destruct (negb b); [discriminate|]. destruct (a =? 0); [discriminate|]. inv_bind X as s1 U.
    destruct (U64 <=? _); [discriminate|]. destruct (U64 <=? _); [discriminate|]. injection X as <-.
    apply (low_pair_of_vlow su (w_st w) s1 v0 d v (update_stake_vlow su _ _ d0 v0 a true s1 Hc Hs Hl U) Hd).
  - inv_bind H as s' X. injection H as <-. cbn [w_st] in *. destruct b; [|discriminate].
    cbn [redel_full] in Hnf. eapply redelegate_low; eassumption.
  - inv_bind H as s' X. injection H as <-. cbn [w_st w_now] in *.
    apply withdraw_lemma in X as (s1 & sh & Hu & G & X); [|apply (inv_bank _ _ _ I)]. cbn zeta in X.
    destruct X as (Pr & _ & So & Sv & _ & Vi & _ & _ & _ & _ & _ & _ & Su).
    assert (Ln : forall v', lastns s' v' = lastns s1 v') by (intros v'; unfold lastns; rewrite Vi; reflexivity).
    pose proof Hu as Hu'. apply update_rewards_spec in Hu' as (vi & comm & _ & _ & SB & Vo & _). destruct SB as (_ & _ & _ & So1 & _).
    destruct ((d0 =? d) && (v0 =? v)) eqn:E.
    + apply andb_true_iff in E as [E1 E2]. apply N.eqb_eq in E1, E2. subst d v.
      destruct (update_rewards_credit_lower su (w_now w) (w_st w) v0 s1 Hc Hs Hl Hu d0) as (x & Ex & Bx).
      exists x. split.
      * unfold rew_of at 2. rewrite Sv. cbn [sh_rew]. rewrite Su.
        replace (q_supply (w_st w) + to_uint_floor (sh_rew sh) - q_supply (w_st w)) with (to_uint_floor (sh_rew sh)) by lia.
        rewrite <- Ex, (rew_of_get _ _ _ _ G). pose proof (floor_lt (sh_rew sh)). lia.
      * intros Hz. apply (lcr_transfer su (w_st w) s1 s'); [apply Ln|apply Bx, Hz].
    + assert (Hp : (d, v) <> (d0, v0)).
      { intros C. injection C as -> ->. rewrite !N.eqb_refl in E. discriminate. }
      assert (Er : rew_of s' d v = rew_of s1 d v) by (unfold rew_of; rewrite (So d v Hp); reflexivity).
      destruct (N.eq_dec v v0) as [->|Hn].
      * destruct (update_rewards_credit_lower su (w_now w) (w_st w) v0 s1 Hc Hs Hl Hu d) as (x & Ex & Bx).
        exists x. split; [rewrite Er, Ex; lia|]. intros Hz. apply (lcr_transfer su (w_st w) s1 s'); [apply Ln|apply Bx, Hz].
      * apply low_pair_same; [rewrite Er; unfold rew_of; rewrite (So1 d v Hn); reflexivity|
                              rewrite Ln; unfold lastns; rewrite (Vo v Hn); reflexivity].
  - inv_bind H as s' X. injection H as <-. cbn [w_st] in *. unfold exec_set_withdraw in X. destruct wd as [w1|]; [|discriminate].
    destruct (d0 =? w1); injection X as <-; apply low_pair_same; reflexivity.
  - inv_bind H as s' X. injection H as <-. cbn [w_st] in *.
    apply slash_spec in X as (s1 & vi & Hu & Gv & _ & _ & X); [|exact Hs]. cbn zeta in X.
    destruct X as (_ & _ & _ & _ & Vo & So & Vv & Sv).
    pose proof Hu as Hu'. apply update_rewards_spec in Hu' as (vi0 & comm & _ & _ & SB & Vo1 & _). destruct SB as (_ & _ & _ & So1 & _).
    apply (low_pair_of_vlow su (w_st w) s' v0 d v); [|exact Hd].
    eapply vlow_of_update; try eassumption.
    + intros d' v' E. rewrite (So d' v' E). symmetry. apply So1, E.
    + intros v' E. rewrite (Vo v' E). symmetry. apply Vo1, E.
    + intros d' Hd'. unfold rew_of. rewrite Sv in *. destruct (_ =? 0); [congruence|].
      destruct (get_stake d' v0 s1); reflexivity.
    + unfold lastns. rewrite Vv, Gv. reflexivity.
  - destruct (U64 <=? w_now w + dt); [discriminate|]. inv_bind H as s' X. injection H as <-. cbn [w_st] in *.
    apply process_queue_from_keep in X as [A1 A2].
    apply low_pair_same; [unfold rew_of; rewrite (A1 d v Hd); reflexivity|apply A2].
Qed.

(* ---------- the period ledger and its invariant over all histories ---------- *)

Record ledp := mkLp { P_I : N; P_S : N; P_N : N; P_paid : N; P_W : N; P_bad : N; P_dr : N }.
Definition ledgerP := N -> N -> ledp.
Definition ledgerP0 : ledgerP := fun _ _ => mkLp 0 0 0 0 0 0 0.

(* the period of a pair ends when nothing is displayed after the operation, or when the operation moves the
   whole displayed delegation away (the entry, and the rewards credited to it, are deleted on the way) *)
Definition period_ends (o : op) (w w' : world) (d v : N) : bool :=
  (disp (w_st w') d v =? 0) || redel_full o (w_st w) d v.

(* within a period:  I += share * apr * whole seconds credited * (1 - commission);  at every reward update that
   moved the validator's clock: N += 1, S += kslack, and bad += 1 if the update found the validator's total at
   zero while the pair held a share (the class DriftZeroTotal), dr += 1 if the share exceeded the validator's
   total (drift);  paid / W: tokens withdrawn / withdrawals *)
Definition lstepP (su : setup) (w : world) (o : op) (w' : world) (L : ledgerP) : ledgerP :=
  fun d v =>
    let s := w_st w in let s' := w_st w' in
    if period_ends o w w' d v then mkLp 0 0 0 0 0 0 0
    else
      let l := L d v in
      let moved := negb (lastns s' v =? lastns s v) in
      mkLp (P_I l + stake_of s d v * su_apr su * (lastns s' v / NS - lastns s v / NS) * kfac su v)
           (P_S l + (if moved then kslack s d v else 0))
           (P_N l + (if moved then 1 else 0))
           (P_paid l + paid_by o w w' d v)
           (P_W l + (if wd_of o d v then 1 else 0))
           (P_bad l + (if moved && zts s d v then 1 else 0))
           (P_dr l + (if moved && negb (stake_of s d v <=? vstake s v * D18) then 1 else 0)).

(* ideal <= (withdrawn + credited + one token per withdrawal) + N atomic units + S * 10^-18 atomic units,
   all times YEAR * 10^36 *)
Definition ledgerP_ok (su : setup) (w : world) (L : ledgerP) : Prop :=
  forall d v, P_bad (L d v) = 0 ->
    P_I (L d v) <= (P_paid (L d v) * D18 + rew_of (w_st w) d v + P_W (L d v) * D18) * YD * D18
                   + P_N (L d v) * YD * D18 + P_S (L d v) * YD.

Lemma ledgerP_step su w o w' L : comm_ok su -> winv su w -> step su w o = SOk w' ->
  ledgerP_ok su w L -> ledgerP_ok su w' (lstepP su w o w' L).
Proof.
  intros Hc I H Ok d v. unfold lstepP. cbn zeta. unfold period_ends.
  destruct (disp (w_st w') d v =? 0) eqn:Ed; cbn [orb]; [intros _; apply N.le_0_l|].
  destruct (redel_full o (w_st w) d v) eqn:Ef; [intros _; apply N.le_0_l|].
  apply N.eqb_neq in Ed. cbn [P_I P_S P_N P_paid P_W P_bad P_dr]. intros Hb.
  destruct (step_low su w o w' Hc I H d v Ed Ef) as (x & Lx & Bx).
  assert (Hb0 : P_bad (L d v) = 0) by lia. specialize (Ok d v Hb0).
  set (R := rew_of (w_st w) d v) in *. set (R' := rew_of (w_st w') d v) in *. set (pd := paid_by o w w' d v) in *.
  set (P0 := P_paid (L d v)) in *. set (I0 := P_I (L d v)) in *. set (S0 := P_S (L d v)) in *.
  set (N0 := P_N (L d v)) in *. set (W0 := P_W (L d v)) in *.
  destruct (lastns (w_st w') v =? lastns (w_st w) v) eqn:Em; cbn [negb andb] in *.
  - apply N.eqb_eq in Em. rewrite Em, N.sub_diag, N.mul_0_r, N.mul_0_l.
    assert (A : (P0 * D18 + R + W0 * D18) * YD * D18 <=
                ((P0 + pd) * D18 + R' + (W0 + (if wd_of o d v then 1 else 0)) * D18) * YD * D18).
    { apply N.mul_le_mono_r, N.mul_le_mono_r. destruct (wd_of o d v); lia. }
    lia.
  - assert (Hz : zts (w_st w) d v = false) by (destruct (zts (w_st w) d v); [lia|reflexivity]).
    specialize (Bx Hz). unfold lcr in Bx. rewrite Em in Bx.
    set (Ii := stake_of (w_st w) d v * su_apr su * (lastns (w_st w') v / NS - lastns (w_st w) v / NS) * kfac su v) in *.
    set (ks := kslack (w_st w) d v) in *.
    assert (A : (P0 * D18 + R + x + W0 * D18) * YD * D18 <=
                ((P0 + pd) * D18 + R' + (W0 + (if wd_of o d v then 1 else 0)) * D18) * YD * D18).
    { apply N.mul_le_mono_r, N.mul_le_mono_r. destruct (wd_of o d v); lia. }
    nia.
Qed.

Inductive preach (su : setup) : world -> ledgerP -> world -> ledgerP -> Prop :=
| preach_refl w L : preach su w L w L
| preach_step w L w1 L1 w2 o : preach su w L w1 L1 -> step su w1 o = SOk w2 ->
    preach su w L w2 (lstepP su w1 o w2 L1).

Lemma preach_reach su w L w' L' : preach su w L w' L' -> reach su w w'.
Proof. induction 1; [constructor|eapply reach_step; eassumption]. Qed.

Lemma rewards_lower_history_lemma su w0 w L : comm_ok su -> init_world su = SOk w0 ->
  preach su w0 ledgerP0 w L -> ledgerP_ok su w L.
Proof.
  intros Hc H0 R. remember ledgerP0 as L0 eqn:EL. induction R as [w L|w L w1 L1 w2 o R IH S].
  - subst. intros d v _. cbn. apply N.le_0_l.
  - eapply ledgerP_step; [exact Hc| |exact S|apply IH; assumption].
    apply (reach_inv su w w1); [apply init_world_inv, H0|eapply preach_reach; eassumption].
Qed.

(* ... and with the pending reward SHOWN: the ideal of the period including the running interval exceeds
   withdrawn + shown by LESS than (W + 1) tokens + (N + 1) atomic units + (S + kslack) * 10^-18 atomic units *)
Lemma shown_lower_lemma su w L d v r : comm_ok su -> winv su w -> ledgerP_ok su w L ->
  P_bad (L d v) = 0 -> zts (w_st w) d v = false ->
  q_rewards (params_of su) (w_now w) (w_st w) d v = SOk (Some r) ->
  P_I (L d v) + stake_of (w_st w) d v * su_apr su * (w_now w / NS - lastns (w_st w) v / NS) * kfac su v
  < (P_paid (L d v) + r + P_W (L d v) + 1) * D18 * YD * D18
    + (P_N (L d v) + 1) * YD * D18 + (P_S (L d v) + kslack (w_st w) d v) * YD.
Proof.
  intros Hc I Ok Hb Hz Q. specialize (Ok d v Hb). unfold q_rewards in Q.
  destruct (get_val (params_of su) v) as [comm|] eqn:Gc; [|discriminate].
  destruct (get_stake d v (w_st w)) as [sh|] eqn:G; [|discriminate].
  destruct (get_vi v (w_st w)) as [vi|] eqn:Gv; [|discriminate].
  inv_bind Q as r0 Hr. injection Q as <-. unfold rewards_internal in Hr.
  inv_bind Hr as nr Hn. inv_bind Hr as x Hx. inv_bind Hr as t Ht. injection Hr as <-. apply dec_add_inv in Ht. subst t.
  assert (Hg : vi_stake vi <> 0 \/ sh_stake sh = 0).
  { unfold zts in Hz. rewrite Gv, G in Hz. apply andb_false_iff in Hz as [Hz|Hz]; [left; apply N.eqb_neq, Hz|right; apply N.ltb_ge in Hz; lia]. }
  pose proof (virtual_credit_lower _ _ _ _ _ _ _ _ Hn Hx (Hc v comm Gc) (inv_last _ _ _ I v vi Gv) Hg) as B.
  cbn [p_apr params_of] in B.
  assert (Ek : kfac su v = D18 - comm).
  { unfold kfac, comm_of. unfold get_val in Gc. cbn [p_vals params_of] in Gc. rewrite Gc. reflexivity. }
  rewrite (rew_of_get _ _ _ _ G) in Ok. unfold kslack, vstake. rewrite (stake_of_get _ _ _ _ G), Ek, Gv. unfold lastns. rewrite Gv.
  pose proof (floor_lt (sh_rew sh + x)) as Fl.
  set (r := to_uint_floor (sh_rew sh + x)) in *. set (R := sh_rew sh) in *. set (st := sh_stake sh) in *.
  set (P0 := P_paid (L d v)) in *. set (I0 := P_I (L d v)) in *. set (S0 := P_S (L d v)) in *.
  set (N0 := P_N (L d v)) in *. set (W0 := P_W (L d v)) in *.
  set (Iv := st * su_apr su * (w_now w / NS - vi_last vi / NS) * (D18 - comm)) in *.
  set (ks := if st <=? vi_stake vi * D18 then D18 else st) in *.
  assert (A : (P0 * D18 + R + x + 1 + W0 * D18) * YD * D18 <= ((P0 + r + W0 + 1) * D18) * YD * D18).
  { apply N.mul_le_mono_r, N.mul_le_mono_r. lia. }
  assert (Pyd : 0 < YD * D18) by reflexivity.
  nia.
Qed.

(* bookkeeping facts of the ledger itself: a zero-total update is a drift update; without drift updates the
   rounding allowance is exactly one atomic unit per reward update *)
Lemma zts_drift s d v : zts s d v = true -> (stake_of s d v <=? vstake s v * D18) = false.
Proof.
  unfold zts, stake_of, vstake. destruct (get_vi v s) as [vi|]; [|discriminate]. destruct (get_stake d v s) as [sh|]; [|discriminate].
  intros H. apply andb_true_iff in H as [H1 H2]. apply N.eqb_eq in H1. apply N.ltb_lt in H2. rewrite H1. apply N.leb_gt. lia.
Qed.

Lemma ledger_counts su w0 L0 w L : preach su w0 L0 w L ->
  (forall d v, P_bad (L0 d v) <= P_dr (L0 d v) /\ (P_dr (L0 d v) = 0 -> P_S (L0 d v) = P_N (L0 d v) * D18)) ->
  forall d v, P_bad (L d v) <= P_dr (L d v) /\ (P_dr (L d v) = 0 -> P_S (L d v) = P_N (L d v) * D18).
Proof.
  induction 1 as [w L|w L w1 L1 w2 o R IH S]; intros H0 d v; [apply H0|].
  specialize (IH H0 d v). destruct IH as [I1 I2]. unfold lstepP. cbn zeta.
  destruct (period_ends o w1 w2 d v); cbn [P_bad P_dr P_S P_N]; [split; [lia|reflexivity]|].
  destruct (lastns (w_st w2) v =? lastns (w_st w1) v); cbn [negb andb].
  - split; [lia|]. intros E. rewrite !N.add_0_r in *. apply I2. lia.
  - destruct (zts (w_st w1) d v) eqn:Z.
    + rewrite (zts_drift _ _ _ Z). cbn [negb]. split; [lia|]. intros E. lia.
    + unfold kslack. destruct (stake_of (w_st w1) d v <=? vstake (w_st w1) v * D18); cbn [negb].
      * split; [lia|]. intros E. rewrite N.add_0_r in E. rewrite (I2 E). lia.
      * split; [lia|]. intros E. lia.
Qed.

(* drift-free reading: while no reward update of the period found the share above the validator's total, and
   it is not above it now, the shortfall is below (W + 1) tokens + 2 atomic units per reward update + 2 *)
Lemma shown_lower_nodrift_lemma su w0 w L d v r : comm_ok su -> init_world su = SOk w0 ->
  preach su w0 ledgerP0 w L ->
  P_dr (L d v) = 0 -> stake_of (w_st w) d v <= vstake (w_st w) v * D18 ->
  q_rewards (params_of su) (w_now w) (w_st w) d v = SOk (Some r) ->
  P_I (L d v) + stake_of (w_st w) d v * su_apr su * (w_now w / NS - lastns (w_st w) v / NS) * kfac su v
  < (P_paid (L d v) + r + P_W (L d v) + 1) * D18 * YD * D18 + (2 * P_N (L d v) + 2) * YD * D18.
Proof.
  intros Hc H0 R Hd Hk Q.
  destruct (ledger_counts su w0 ledgerP0 w L R (fun _ _ => conj (N.le_refl 0) (fun _ => eq_refl)) d v) as [C1 C2].
  assert (Hb : P_bad (L d v) = 0) by lia. specialize (C2 Hd).
  assert (Hz : zts (w_st w) d v = false).
  { destruct (zts (w_st w) d v) eqn:Z; [|reflexivity]. apply zts_drift in Z. apply N.leb_gt in Z. lia. }
  pose proof (reach_inv su w0 w (init_world_inv su w0 H0) (preach_reach _ _ _ _ _ R)) as I.
  pose proof (shown_lower_lemma su w L d v r Hc I (rewards_lower_history_lemma su w0 w L Hc H0 R) Hb Hz Q) as B.
  unfold kslack in B. replace (stake_of (w_st w) d v <=? vstake (w_st w) v * D18) with true in B by (symmetry; apply N.leb_le, Hk).
  rewrite C2 in B. lia.
Qed.

(* by computation, for the examples *)
Fixpoint prun_all (su : setup) (w : world) (L : ledgerP) (ops : list op) : option (world * ledgerP) :=
  match ops with
  | [] => Some (w, L)
  | o :: r => match step su w o with SOk w' => prun_all su w' (lstepP su w o w' L) r | _ => None end
  end.
Lemma prun_all_preach su : forall ops w L w' L', prun_all su w L ops = Some (w', L') -> preach su w L w' L'.
Proof.
  assert (G : forall a La b Lb, preach su a La b Lb -> forall c Lc, preach su b Lb c Lc -> preach su a La c Lc).
  { intros a La b Lb R1 c Lc R2. induction R2; [exact R1|]. eapply preach_step; [apply IHR2; exact R1|eassumption]. }
  induction ops as [|o r IH]; intros w L w' L' H; cbn [prun_all] in H.
  - injection H as <- <-. constructor.
  - destruct (step su w o) as [w1| | |] eqn:S; try discriminate.
    eapply G; [eapply preach_step; [constructor|exact S]|apply IH, H].
Qed.

Lemma prun_all_preach' su ops w L r : prun_all su w L ops = r ->
  match r with Some (w', L') => preach su w L w' L' | None => True end.
Proof. intros <-. destruct (prun_all su w L ops) as [[w' L']|] eqn:E; [apply (prun_all_preach su ops), E|exact Logic.I]. Qed.

(* ---------- without the guard the bound is false: the class DriftZeroTotal ---------- *)

Definition rewards_lower_unguarded : Prop :=
  forall su w0 w L d v r, comm_ok su -> init_world su = SOk w0 -> preach su w0 ledgerP0 w L ->
    q_rewards (params_of su) (w_now w) (w_st w) d v = SOk (Some r) ->
    P_I (L d v) + stake_of (w_st w) d v * su_apr su * (w_now w / NS - lastns (w_st w) v / NS) * kfac su v
    < (P_paid (L d v) + r + P_W (L d v) + 1) * D18 * YD * D18
      + (P_N (L d v) + 1) * YD * D18 + (P_S (L d v) + kslack (w_st w) d v) * YD.

(* B delegates 19, six slashes of 10 %, A delegates 2, B undelegates its displayed 10: the validator's total is 0
   while A holds 2.0; ten years later A is shown 0 where 2 * 10 % * 0.9 * 10 = 1.8 tokens are due *)
Definition dz_su : setup :=
  mkSetup 60 100000000000000000 [(1, 100000000000000000)] [(1, 1000); (2, 1000)] [1; 2] 1571797419879305533 USTAKE XDEN.
Definition dz_ops : list op :=
  [Delegate 2 1 19 true; Slash 1 100000000000000000; Slash 1 100000000000000000; Slash 1 100000000000000000;
   Slash 1 100000000000000000; Slash 1 100000000000000000; Slash 1 100000000000000000;
   Delegate 1 1 2 true; Undelegate 2 1 10 true; Advance 315360000000000000].
Definition dz_w0 : world := Eval vm_compute in ok_or_dummy (init_world dz_su).
Definition dz_led : option (world * ledgerP) := prun_all dz_su dz_w0 ledgerP0 dz_ops.
Definition dz_w : world := match dz_led with Some (w, _) => w | None => dz_w0 end.
Definition dz_L : ledgerP := match dz_led with Some (_, L) => L | None => ledgerP0 end.

Lemma dz_facts :
  comm_ok dz_su /\ init_world dz_su = SOk dz_w0 /\ preach dz_su dz_w0 ledgerP0 dz_w dz_L /\
  q_rewards (params_of dz_su) (w_now dz_w) (w_st dz_w) 1 1 = SOk (Some 0) /\
  zts (w_st dz_w) 1 1 = true /\ stake_of (w_st dz_w) 1 1 = 2 * D18 /\ vstake (w_st dz_w) 1 = 0 /\
  P_I (dz_L 1 1) = 0 /\ P_bad (dz_L 1 1) = 0 /\ P_paid (dz_L 1 1) = 0 /\ P_W (dz_L 1 1) = 0.
Proof.
  split; [apply comm_okb_ok; vm_compute; reflexivity|]. split; [vm_compute; reflexivity|]. split.
  - pose proof (prun_all_preach' dz_su dz_ops dz_w0 ledgerP0 dz_led eq_refl) as P.
    assert (N : match dz_led with Some _ => true | None => false end = true) by (vm_compute; reflexivity).
    unfold dz_w, dz_L. destruct dz_led as [[w L]|]; [exact P|discriminate N].
  - repeat split; vm_compute; reflexivity.
Qed.

Lemma rewards_lower_unguarded_refuted_lemma : ~ rewards_lower_unguarded.
Proof.
  intros H. destruct dz_facts as (Hc & H0 & R & Q & _).
  pose proof (H dz_su dz_w0 dz_w dz_L 1 1 0 Hc H0 R Q) as C. vm_compute in C. discriminate C.
Qed.
