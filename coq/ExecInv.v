(* ExecInv.v — invariants of the execution log proved by mutual induction over the message tree:
   every entry point at every depth is told the SAME block (the one the top-level call was given),
   and every log entry of a run is produced under that environment. *)
From Verif Require Import Base OMap Text Proto Bank Exec ExecFacts.
Local Open Scope N_scope.

Scheme msg_mind := Induction for msg Sort Prop
  with prog_mind := Induction for prog Sort Prop
  with output_mind := Induction for output Sort Prop
  with subs_mind := Induction for subs Sort Prop
  with sub_mind := Induction for sub Sort Prop.
Combined Scheme exec_mutind from msg_mind, prog_mind, output_mind, subs_mind, sub_mind.

Scheme qact_mind := Induction for qact Sort Prop
  with qprog_mind := Induction for qprog Sort Prop
  with qacts_mind := Induction for qacts Sort Prop.
Combined Scheme query_mutind from qact_mind, qprog_mind, qacts_mind.

Definition entry_block_ok (b : blockinfo) (en : rentry) : Prop :=
  match en with
  | RCall _ _ _ _ _ b' _ _ => b' = b
  | RQuery _ _ b' _ => b' = b
  | _ => True
  end.

Notation blk_ok e := (Forall (entry_block_ok (blk e))).

Lemma query_block_ok e :
  (forall q s node own, blk_ok e (run_qact e s node own q)) /\
  (forall q s c tag, blk_ok e (fst (run_qprog e s c tag q))) /\
  (forall l s node own, blk_ok e (run_qacts e s node own l)).
Proof.
  apply query_mutind; intros; cbn [run_qact run_qprog run_qacts fst];
    try (repeat constructor; fail).
  - (* QSmart *)
    destruct (is_valid e c); [|repeat constructor].
    destruct (lookup c (reg s)) as [cd|]; [|repeat constructor].
    destruct (find_code (cd_code cd) (codes e)) as [co|]; [|repeat constructor].
    specialize (H s c (c_tag co)). destruct (run_qprog e s c (c_tag co) q) as [tr r]. cbn in H.
    apply Forall_app. split; [exact H|repeat constructor].
  - constructor; [reflexivity|apply H].
  - apply Forall_app. split; [apply H|apply H0].
Qed.

Lemma actions_block_ok e s node : forall acts own, blk_ok e (fst (run_actions e s node own acts)).
Proof.
  induction acts as [|a r IH]; intros own; cbn [run_actions fst]; [constructor|].
  destruct a as [k v|k|q]; try apply IH.
  specialize (IH own). destruct (run_actions e s node own r) as [tr' own']. cbn [fst] in *.
  apply Forall_app. split; [apply query_block_ok|exact IH].
Qed.

Lemma exec_block_ok e :
  (forall m sender s, blk_ok e (trc (run_msg e sender m s))) /\
  (forall p entry c sender funds rep cid rok s, blk_ok e (trc (run_prog e entry c sender funds rep cid rok p s))) /\
  (forall o : output, match o with OFail => True
                                | OResp _ _ _ sbs => forall c data s, blk_ok e (trc (process_subs e c sbs data s)) end) /\
  (forall l c data s, blk_ok e (trc (process_subs e c l data s))) /\
  (forall sb c s, blk_ok e (trc (run_sub e c sb s))).
Proof.
  apply exec_mutind; try (intros; exact I).
  - (* MBankSend *) intros to amt sender s. cbn [run_msg]. destruct (bank_send (bank s) sender to amt); constructor.
  - intros amt sender s. cbn [run_msg]. destruct (bank_burn (bank s) sender amt); constructor.
  - (* MExec *) intros c p IH funds sender s. cbn [run_msg].
    destruct (negb (is_valid e c)); [constructor|].
    destruct (move_funds s sender c funds) as [s1| |]; try constructor.
    specialize (IH EExec c (Some sender) funds None 0 true s1).
    destruct (run_prog e EExec c (Some sender) funds None 0 true p s1) as [tr [[[ev d] s2]| |]]; exact IH.
  - (* MInst *) intros code_id p IH funds label admin salt sender s. cbn [run_msg].
    destruct label as [|l0 lr]; [constructor|].
    destruct (register_contract e s code_id sender admin (l0 :: lr) salt) as [[a s1]| |]; try constructor.
    destruct (move_funds s1 sender a funds) as [s2| |]; try constructor.
    specialize (IH EInst a (Some sender) funds None code_id true s2).
    destruct (run_prog e EInst a (Some sender) funds None code_id true p s2) as [tr [[[ev d] s3]| |]]; exact IH.
  - (* MMigrate *) intros c new_code p IH sender s. cbn [run_msg].
    destruct (negb (is_valid e c)); [constructor|].
    destruct (find_code new_code (codes e)); [|constructor].
    destruct (lookup c (reg s)) as [cd|]; [|constructor].
    destruct (negb (option_eqb beqb (cd_admin cd) (Some sender))); [constructor|].
    match goal with |- context [run_prog e EMigrate c None [] None new_code true p ?s1] =>
      specialize (IH EMigrate c None [] None new_code true s1);
      destruct (run_prog e EMigrate c None [] None new_code true p s1) as [tr [[[ev d] s2]| |]]; exact IH end.
  - intros c a sender s. cbn [run_msg].
    destruct (negb (is_valid e c)); [constructor|]. destruct (negb (is_valid e a)); [constructor|].
    destruct (lookup c (reg s)) as [cd|]; [|constructor].
    destruct (negb (option_eqb beqb (cd_admin cd) (Some sender))); constructor.
  - intros c sender s. cbn [run_msg].
    destruct (negb (is_valid e c)); [constructor|].
    destruct (lookup c (reg s)) as [cd|]; [|constructor].
    destruct (negb (option_eqb beqb (cd_admin cd) (Some sender))); constructor.
  - intros ok tag sender s. cbn [run_msg trc fst]. repeat constructor.
  - (* Prog *) intros node acts out IHout entry c sender funds rep cid rok s. cbn [run_prog].
    destruct (lookup c (reg s)) as [cd|]; [|constructor].
    destruct (find_code (cd_code cd) (codes e)) as [co|]; [|constructor].
    destruct (negb (ep_available co entry)); [constructor|].
    pose proof (actions_block_ok e s node acts (cstore_get s c)) as Ha.
    destruct (run_actions e s node (cstore_get s c) acts) as [tr_a own']. cbn [fst] in Ha.
    destruct out as [|attrs events data sbs].
    + cbn [trc fst]. constructor; [reflexivity|exact Ha].
    + destruct (verify_response attrs events); [cbn [trc fst]; constructor; [reflexivity|exact Ha]|].
      specialize (IHout c data (cstore_set s c own')).
      destruct (process_subs e c sbs data (cstore_set s c own')) as [tr_s [[[ev d] s2]| |]]; cbn [trc fst] in *;
        (constructor; [reflexivity|apply Forall_app; split; assumption]).
  - (* OResp: carries the IH for its subs *)
    intros attrs events data sbs IH. exact IH.
  - (* SNil *) intros c data s. cbn. constructor.
  - (* SCons *) intros sb IHsb r IHr c data s. rewrite process_subs_trace.
    apply Forall_app. split; [apply IHsb|].
    destruct (outc (run_sub e c sb s)) as [[[ev1 d1] s1]| |]; [apply IHr|constructor|constructor].
  - (* Sub *) intros id payload ro m IHm on_ok IHok on_err IHerr c s. rewrite run_sub_trace.
    apply Forall_app. split; [apply IHm|].
    destruct (outc (run_msg e c m s)) as [[[ev d] s1]| |].
    + destruct (wants_ok ro); [apply IHok|constructor].
    + destruct (wants_err ro); [apply IHerr|constructor].
    + constructor.
Qed.
