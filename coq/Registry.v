(* Registry.v — the CODE TABLE of WasmKeeper (code_data : BTreeMap<u64, CodeData> + code_base) as a value that
   changes over a history, on top of the executor model Exec.v (whose env holds the table that is constant
   DURING one top-level call), and the registry facts of C11 / C12.

   Source anchors (/repo/src/wasm.rs as of commit 2c02c85 "fix: accept every stored code id ..."):
     next_code_id 514-517, save_code 489-511, store_code 288-294, store_code_with_id 296-311,
     duplicate_code 313-330, code_data 443-451, contract_code 437-440, CodeInfo 251-259,
     register_contract 1001-1053, Migrate 689-727, update_admin 574-600.
   No pinned theorems here (Properties/C11.v, C12.v). *)
From Coq Require Import Sorted.
From Verif Require Import Base OMap Text Proto Bank Exec ExecFacts ExecInv ExecFacts2.
Local Open Scope N_scope.

(* ---------- the code table ---------- *)
Definition u64_max : N := 18446744073709551615.

(* BTreeMap<u64, CodeData>: kept sorted by id; CodeData.source_id is resolved: the entry holds the behaviour
   (tag, optional entry points) of code_base[source_id] directly *)
Definition ctable := list (N * code).

(* what is handed to store_code: a Box<dyn Contract> = behaviour + optional explicit checksum *)
Record source := { s_tag : N; s_checksum : option bytes; s_sudo : bool; s_reply : bool; s_migrate : bool }.

Definition ids (t : ctable) : list N := map fst t.
Definition has_id (id : N) (t : ctable) : bool := match find_code id t with Some _ => true | None => false end.
Definition tsorted (t : ctable) : Prop := sorted N.compare t.

(* keys().last().unwrap_or(&0).checked_add(1)   (wasm.rs:514-517) *)
Definition tlast (t : ctable) : N := last (ids t) 0.
Definition next_code_id (t : ctable) : option N := if u64_max <=? tlast t then None else Some (tlast t + 1).

(* the checksum generator is a pluggable trait object: everything is parametric in it *)
Definition ckgen := text -> N -> bytes.

(* save_code (wasm.rs:489-511): checksum = code.checksum().unwrap_or(generator.checksum(&creator, code_id)) *)
Definition mk_code (dck : ckgen) (id : N) (creator : text) (src : source) : code :=
  {| c_tag := s_tag src; c_creator := creator;
     c_checksum := match s_checksum src with Some c => c | None => dck creator id end;
     has_sudo := s_sudo src; has_reply := s_reply src; has_migrate := s_migrate src |}.
Definition tinsert (id : N) (c : code) (t : ctable) : ctable := insert N.compare id c t.
Definition save_code (dck : ckgen) (t : ctable) (id : N) (creator : text) (src : source) : ctable :=
  tinsert id (mk_code dck id creator src) t.

(* store_code (wasm.rs:288-294): panics when no id is left *)
Definition store_code (dck : ckgen) (t : ctable) (creator : text) (src : source) : outcome (N * ctable) :=
  match next_code_id t with
  | None => Panic
  | Some id => Ok (id, save_code dck t id creator src)
  end.

(* store_code_with_id (wasm.rs:296-311): duplicate first, then zero *)
Definition store_code_with_id (dck : ckgen) (t : ctable) (creator : text) (id : N) (src : source) : outcome (N * ctable) :=
  if has_id id t then Err
  else if id =? 0 then Err
  else Ok (id, save_code dck t id creator src).

(* code_data (wasm.rs:443-451) *)
Definition code_data (t : ctable) (id : N) : option code := if id <? 1 then None else find_code id t.

(* duplicate_code (wasm.rs:313-330): same creator, checksum and source; an error (not a panic) when no id is left *)
Definition duplicate_code (t : ctable) (id : N) : outcome (N * ctable) :=
  match code_data t id with
  | None => Err
  | Some c => match next_code_id t with
              | None => Err
              | Some n => Ok (n, tinsert n c t)
              end
  end.

(* the largest id in use, order-independent (the specification's "largest id in use") *)
Definition tmax (t : ctable) : N := fold_right N.max 0 (ids t).

(* ---------- N.compare is a strict total order ---------- *)
Lemma Ncmp_eq a b : N.compare a b = Eq <-> a = b. Proof. apply N.compare_eq_iff. Qed.
Lemma Ncmp_anti a b : N.compare b a = CompOpp (N.compare a b). Proof. apply N.compare_antisym. Qed.
Lemma Ncmp_trans a b c : N.compare a b = Lt -> N.compare b c = Lt -> N.compare a c = Lt.
Proof. rewrite !N.compare_lt_iff. apply N.lt_trans. Qed.

Lemma find_code_assoc id t : find_code id t = assoc N.compare id t.
Proof.
  induction t as [|[i c] t IH]; cbn [find_code assoc]; [reflexivity|].
  rewrite IH. destruct (N.eqb_spec i id) as [->|Hne].
  - rewrite N.compare_refl. reflexivity.
  - destruct (N.compare id i) eqn:E; try reflexivity. apply Ncmp_eq in E. congruence.
Qed.

Lemma find_tinsert x id c t :
  find_code x (tinsert id c t) = if x =? id then Some c else find_code x t.
Proof.
  unfold tinsert. induction t as [|[i c0] t IH]; cbn [insert find_code].
  - rewrite (N.eqb_sym id x). reflexivity.
  - destruct (N.compare id i) eqn:E; cbn [find_code].
    + apply Ncmp_eq in E. subst i. rewrite (N.eqb_sym id x). destruct (x =? id); reflexivity.
    + rewrite (N.eqb_sym id x). reflexivity.
    + rewrite IH. destruct (N.eqb_spec i x) as [->|Hne]; [|reflexivity].
      destruct (N.eqb_spec x id) as [->|Hne2]; [|reflexivity]. rewrite N.compare_refl in E. discriminate.
Qed.

Lemma has_id_in id t : has_id id t = true <-> In id (ids t).
Proof.
  unfold has_id. induction t as [|[i c] t IH]; cbn [find_code ids map In fst].
  - split; [discriminate|contradiction].
  - destruct (N.eqb_spec i id) as [->|Hne].
    + split; auto.
    + rewrite IH. unfold ids. split; [auto|]. intros [H|H]; [contradiction|exact H].
Qed.

Lemma find_in id t c : find_code id t = Some c -> In id (ids t).
Proof. intros H. apply has_id_in. unfold has_id. rewrite H. reflexivity. Qed.

Lemma not_in_find id t : ~ In id (ids t) -> find_code id t = None.
Proof.
  intros H. destruct (find_code id t) eqn:E; [|reflexivity]. exfalso. apply H. eapply find_in; eauto.
Qed.

Lemma ids_tinsert x id c t : In x (ids (tinsert id c t)) <-> x = id \/ In x (ids t).
Proof.
  rewrite <- !has_id_in. unfold has_id. rewrite find_tinsert.
  destruct (N.eqb_spec x id) as [->|Hne].
  - split; auto.
  - split; [auto|]. intros [H|H]; [contradiction|exact H].
Qed.

Lemma tsorted_tinsert id c t : tsorted t -> tsorted (tinsert id c t).
Proof. apply insert_sorted; [apply Ncmp_eq|apply Ncmp_anti|apply Ncmp_trans]. Qed.

Lemma tsorted_nil : tsorted []. Proof. constructor. Qed.

Lemma tsorted_tail i c t : tsorted ((i, c) :: t) -> tsorted t /\ Forall (fun j => i < j) (ids t).
Proof.
  intros H. apply sorted_inv in H. destruct H as [H1 H2]. split; [exact H1|].
  unfold keys in H2. unfold ids. eapply Forall_impl; [|exact H2]. cbn. intros a Ha. apply N.compare_lt_iff. exact Ha.
Qed.

(* in a sorted table the last key is the largest *)
Lemma tlast_cons i c t : tlast ((i, c) :: t) = match t with [] => i | _ => tlast t end.
Proof. unfold tlast. cbn [ids map fst]. destruct t as [|[j d] t]; reflexivity. Qed.

Lemma tlast_max t : tsorted t -> tlast t = tmax t.
Proof.
  induction t as [|[i c] t IH]; intros Hs; [reflexivity|].
  apply tsorted_tail in Hs. destruct Hs as [Hs Hf]. rewrite tlast_cons. unfold tmax in *. cbn [ids map fst fold_right].
  destruct t as [|[j d] t'].
  - cbn. lia.
  - rewrite IH by exact Hs. fold (ids ((j, d) :: t')).
    assert (Hge : i < fold_right N.max 0 (ids ((j, d) :: t'))).
    { cbn [ids map fst fold_right]. inversion Hf; subst. cbn in *. lia. }
    lia.
Qed.

Lemma tmax_ge t i : In i (ids t) -> i <= tmax t.
Proof.
  unfold tmax. induction t as [|[j c] t IH]; cbn [ids map fst In fold_right]; [contradiction|].
  intros [->|H]; [lia|]. specialize (IH H). unfold ids in IH. lia.
Qed.

Lemma tmax_in t : t <> [] -> In (tmax t) (ids t).
Proof.
  unfold tmax. induction t as [|[j c] t IH]; [congruence|]. intros _. cbn [ids map fst fold_right].
  destruct t as [|[j' c'] t'].
  - cbn. left. lia.
  - destruct (N.max_spec j (fold_right N.max 0 (map fst ((j', c') :: t')))) as [[_ ->]|[_ ->]].
    + right. apply IH. discriminate.
    + left. reflexivity.
Qed.

Lemma tsorted_nodup t : tsorted t -> NoDup (ids t).
Proof.
  induction t as [|[i c] t IH]; intros Hs; cbn [ids map fst]; [constructor|].
  apply tsorted_tail in Hs. destruct Hs as [Hs Hf]. constructor; [|apply IH; exact Hs].
  intros Hin. rewrite Forall_forall in Hf. specialize (Hf i Hin). lia.
Qed.

(* ---------- C11: identifiers ---------- *)

(* auto-assigned id = one more than the largest id in use; a panic exactly when that id is 2^64-1 (or beyond) *)
Lemma store_code_spec dck t creator src : tsorted t ->
  match store_code dck t creator src with
  | Ok (id, t') => id = tmax t + 1 /\ tmax t < u64_max /\ ~ In id (ids t) /\
                   find_code id t' = Some (mk_code dck id creator src) /\
                   (forall j, j <> id -> find_code j t' = find_code j t)
  | Panic => u64_max <= tmax t
  | Err => False
  end.
Proof.
  intros Hs. unfold store_code, next_code_id. rewrite (tlast_max t Hs).
  destruct (N.leb_spec u64_max (tmax t)) as [H|H]; [exact H|].
  split; [reflexivity|]. split; [exact H|]. split.
  - intros Hin. apply tmax_ge in Hin. lia.
  - unfold save_code. split.
    + rewrite find_tinsert, N.eqb_refl. reflexivity.
    + intros j Hj. rewrite find_tinsert. destruct (N.eqb_spec j (tmax t + 1)); [contradiction|reflexivity].
Qed.

Lemma store_with_id_ok dck t creator id src :
  id <> 0 -> ~ In id (ids t) ->
  exists t', store_code_with_id dck t creator id src = Ok (id, t') /\
             find_code id t' = Some (mk_code dck id creator src) /\
             (forall j, j <> id -> find_code j t' = find_code j t).
Proof.
  intros H0 Hn. unfold store_code_with_id.
  destruct (has_id id t) eqn:E; [apply has_id_in in E; contradiction|].
  destruct (N.eqb_spec id 0); [contradiction|]. eexists. split; [reflexivity|]. unfold save_code. split.
  - rewrite find_tinsert, N.eqb_refl. reflexivity.
  - intros j Hj. rewrite find_tinsert. destruct (N.eqb_spec j id); [contradiction|reflexivity].
Qed.

Lemma store_with_id_rejected dck t creator id src :
  id = 0 \/ In id (ids t) -> store_code_with_id dck t creator id src = Err.
Proof.
  intros H. unfold store_code_with_id. destruct (has_id id t) eqn:E; [reflexivity|].
  destruct H as [->|H]; [reflexivity|]. apply has_id_in in H. congruence.
Qed.

Lemma store_with_id_inv dck t creator id src id' t' :
  store_code_with_id dck t creator id src = Ok (id', t') ->
  id' = id /\ id <> 0 /\ ~ In id (ids t) /\ t' = save_code dck t id creator src.
Proof.
  unfold store_code_with_id. destruct (has_id id t) eqn:E; [discriminate|].
  destruct (N.eqb_spec id 0); [discriminate|]. intros H. injection H as <- <-.
  repeat split; auto. intros Hin. apply has_id_in in Hin. congruence.
Qed.

Lemma duplicate_spec t id : tsorted t ->
  match duplicate_code t id with
  | Ok (n, t') => exists c, id <> 0 /\ find_code id t = Some c /\ n = tmax t + 1 /\ tmax t < u64_max /\ ~ In n (ids t) /\
                            find_code n t' = Some c /\ (forall j, j <> n -> find_code j t' = find_code j t)
  | Err => id = 0 \/ ~ In id (ids t) \/ u64_max <= tmax t
  | Panic => False
  end.
Proof.
  intros Hs. unfold duplicate_code, code_data, next_code_id. rewrite (tlast_max t Hs).
  destruct (N.ltb_spec id 1) as [H1|H1]; [left; lia|].
  destruct (find_code id t) as [c|] eqn:Ef.
  - destruct (N.leb_spec u64_max (tmax t)) as [H|H]; [auto|].
    exists c. split; [lia|]. split; [reflexivity|]. split; [reflexivity|]. split; [exact H|]. split.
    + intros Hin. apply tmax_ge in Hin. lia.
    + split; [rewrite find_tinsert, N.eqb_refl; reflexivity|].
      intros j Hj. rewrite find_tinsert. destruct (N.eqb_spec j (tmax t + 1)); [contradiction|reflexivity].
  - right. left. intros Hin. apply has_id_in in Hin. unfold has_id in Hin. rewrite Ef in Hin. discriminate.
Qed.

(* ---------- the code-id checks (the statement the F2 defect violated) ---------- *)
Definition tenv (t : ctable) (e : env) : env :=
  {| codes := t; blk := blk e; valid_addrs := valid_addrs e; classic_book := classic_book e; salted_book := salted_book e |}.

(* for every id in the table, whatever the other ids are (contiguous or not), all four checks accept it *)
Lemma code_checks_accept e id : In id (ids (codes e)) -> 0 < id ->
  exists co, find_code id (codes e) = Some co /\
    (* instantiate: register_contract's check passes; the outcome depends on the address only *)
    (forall s creator admin label salt,
       register_contract e s id creator admin label salt =
       if negb (salt_ok salt) then Err else
       match new_address e s id creator salt with
       | None => Panic
       | Some a => match lookup a (reg s) with
                   | Some _ => Err
                   | None => Ok (a, set_reg s (update a {| cd_code := id; cd_creator := creator; cd_admin := admin;
                                                          cd_label := label; cd_created := b_height (blk e) |} (reg s)))
                   end
       end) /\
    (* migrate: the target check passes: an admin's migration reaches the migrate entry point of THAT code *)
    (forall s c cd sender p, is_valid e c = true -> lookup c (reg s) = Some cd -> cd_admin cd = Some sender ->
       trc (run_msg e sender (MMigrate c id p) s) =
       trc (run_prog e EMigrate c None [] None id true p
              (set_reg s (update c {| cd_code := id; cd_creator := cd_creator cd; cd_admin := cd_admin cd;
                                      cd_label := cd_label cd; cd_created := cd_created cd |} (reg s)))) /\
       is_ok (outc (run_msg e sender (MMigrate c id p) s)) =
       is_ok (outc (run_prog e EMigrate c None [] None id true p
              (set_reg s (update c {| cd_code := id; cd_creator := cd_creator cd; cd_admin := cd_admin cd;
                                      cd_label := cd_label cd; cd_created := cd_created cd |} (reg s)))))) /\
    (* CodeInfo and code_data *)
    (forall s node own, run_qact e s node own (QCodeInfo id) = [RObs node (VCodeInfo (Some (id, c_creator co, c_checksum co)))]) /\
    code_data (codes e) id = Some co /\
    (* contract_code: a contract recorded with this id is served by this code *)
    (forall s c cd entry, lookup c (reg s) = Some cd -> cd_code cd = id ->
       serving e s c entry = if ep_available co entry then Some co else None).
Proof.
  intros Hin Hpos. apply has_id_in in Hin. unfold has_id in Hin.
  destruct (find_code id (codes e)) as [co|] eqn:Ef; [|discriminate]. exists co. split; [reflexivity|].
  split; [|split; [|split; [|split]]].
  - intros. unfold register_contract. rewrite Ef. reflexivity.
  - intros s c cd sender p Hv Hl Ha. cbn [run_msg]. rewrite Hv, Ef, Hl, Ha. cbn [negb].
    assert (E : option_eqb beqb (Some sender) (Some sender) = true) by (cbn; apply beqb_eq; reflexivity).
    rewrite E. cbn [negb].
    match goal with |- context [run_prog e EMigrate c None [] None id true p ?s1] =>
      destruct (run_prog e EMigrate c None [] None id true p s1) as [tr [[[ev d] s2]| |]] end; split; reflexivity.
  - intros. cbn [run_qact]. rewrite Ef. reflexivity.
  - unfold code_data. destruct (N.ltb_spec id 1); [lia|]. exact Ef.
  - intros s c cd entry Hl Hc. unfold serving. rewrite Hl, Hc, Ef. reflexivity.
Qed.

(* ... and only those: an id that is not in the table is refused everywhere *)
Lemma code_checks_refuse e id : ~ In id (ids (codes e)) ->
  (forall s creator admin label salt, register_contract e s id creator admin label salt = Err) /\
  (forall s c sender p, run_msg e sender (MMigrate c id p) s = ([], Err)) /\
  (forall s node own, run_qact e s node own (QCodeInfo id) = [RObs node (VCodeInfo None)]) /\
  code_data (codes e) id = None.
Proof.
  intros Hn. apply not_in_find in Hn. repeat split; intros.
  - unfold register_contract. rewrite Hn. reflexivity.
  - cbn [run_msg]. destruct (negb (is_valid e c)); [reflexivity|]. rewrite Hn. reflexivity.
  - cbn [run_qact]. rewrite Hn. reflexivity.
  - unfold code_data. rewrite Hn. destruct (id <? 1); reflexivity.
Qed.

(* ---------- association lists keyed by address: update / lookup without any sortedness premise ---------- *)
Lemma lookup_update {A} x k (a : A) l : lookup x (update k a l) = if beqb x k then Some a else lookup x l.
Proof.
  unfold lookup, update, beqb. induction l as [|[k' a'] l IH]; cbn [insert assoc].
  - destruct (bcmp x k); reflexivity.
  - destruct (bcmp k k') eqn:E; cbn [assoc].
    + apply bcmp_eq in E. subst k'. destruct (bcmp x k); reflexivity.
    + destruct (bcmp x k) eqn:E2; try reflexivity.
    + rewrite IH. destruct (bcmp x k') eqn:E3; [|reflexivity|reflexivity].
      apply bcmp_eq in E3. subst k'. destruct (bcmp x k) eqn:E4; try reflexivity.
      apply bcmp_eq in E4. subst x. rewrite (proj2 (bcmp_eq k k) eq_refl) in E. discriminate.
Qed.

Lemma beqb_refl x : beqb x x = true. Proof. apply beqb_eq. reflexivity. Qed.

Lemma lookup_update_same {A} k (a : A) l : lookup k (update k a l) = Some a.
Proof. rewrite lookup_update, beqb_refl. reflexivity. Qed.

Lemma lookup_update_other {A} x k (a : A) l : x <> k -> lookup x (update k a l) = lookup x l.
Proof.
  intros H. rewrite lookup_update. destruct (beqb x k) eqn:E; [|reflexivity]. apply beqb_eq in E. contradiction.
Qed.

Lemma length_update_fresh {A} k (a : A) l : lookup k l = None -> length (update k a l) = S (length l).
Proof.
  unfold lookup, update. induction l as [|[k' a'] l IH]; cbn [insert assoc length]; [reflexivity|].
  destruct (bcmp k k') eqn:E; [discriminate| |]; intros H; cbn [length]; [reflexivity|].
  rewrite IH by exact H. reflexivity.
Qed.

Lemma option_eqb_some a b : option_eqb beqb a (Some b) = true <-> a = Some b.
Proof.
  destruct a as [x|]; cbn; [|split; discriminate]. rewrite beqb_eq. split; congruence.
Qed.

(* ---------- C11: addresses and recorded data ---------- *)
Lemma register_records e s code_id creator admin label salt a s1 :
  register_contract e s code_id creator admin label salt = Ok (a, s1) ->
  lookup a (reg s) = None /\
  lookup a (reg s1) = Some {| cd_code := code_id; cd_creator := creator; cd_admin := admin; cd_label := label;
                              cd_created := b_height (blk e) |} /\
  (forall x, x <> a -> lookup x (reg s1) = lookup x (reg s)) /\
  length (reg s1) = S (length (reg s)) /\
  new_address e s code_id creator salt = Some a /\ In code_id (ids (codes e)) /\
  bank s1 = bank s /\ cstore s1 = cstore s /\ salt_ok salt = true.
Proof.
  intros H. pose proof (register_fresh _ _ _ _ _ _ _ _ _ H) as [Hn [Hc [Hr [Hb Hcs]]]].
  split; [exact Hn|]. rewrite Hr. split; [apply lookup_update_same|].
  split; [intros x Hx; apply lookup_update_other; exact Hx|].
  split; [apply length_update_fresh; exact Hn|].
  assert (Hs : salt_ok salt = true /\ new_address e s code_id creator salt = Some a).
  { unfold register_contract in H. destruct (find_code code_id (codes e)); [|discriminate].
    destruct (salt_ok salt); cbn [negb] in H; [|discriminate].
    destruct (new_address e s code_id creator salt) as [a0|]; [|discriminate].
    destruct (lookup a0 (reg s)); [discriminate|]. injection H as <- _. auto. }
  destruct Hs as [Hs Hna]. split; [exact Hna|].
  split; [destruct (find_code code_id (codes e)) eqn:E; [eapply find_in; eauto|congruence]|]. auto.
Qed.

(* an Instantiate2 whose salt is empty or longer than 64 bytes is refused, whatever the code, creator, label,
   admin, funds, program and state: before anything is written, before funds move, before any code runs *)
Lemma bad_salt_rejected e sender code_id p funds label admin salt s :
  salt_ok (Some salt) = false ->
  (forall creator, register_contract e s code_id creator admin label (Some salt) = Err) /\
  run_msg e sender (MInst code_id p funds label admin (Some salt)) s = ([], Err).
Proof.
  intros Hs.
  assert (Hr : forall creator, register_contract e s code_id creator admin label (Some salt) = Err).
  { intros creator. unfold register_contract. destruct (find_code code_id (codes e)); [|reflexivity]. rewrite Hs. reflexivity. }
  split; [exact Hr|]. cbn [run_msg]. destruct label as [|l0 lr]; [reflexivity|].
  unfold register_contract. destruct (find_code code_id (codes e)); [|reflexivity]. rewrite Hs. reflexivity.
Qed.

Lemma bad_salt_rejected_top e sender code_id p funds label admin salt s :
  salt_ok (Some salt) = false ->
  run_top e (TExec sender (MInst code_id p funds label admin (Some salt))) s = ([], Err, s).
Proof.
  intros Hs. cbn [run_top run_msgs].
  rewrite (proj2 (bad_salt_rejected e sender code_id p funds label admin salt s Hs)). reflexivity.
Qed.

(* the classic address is computed from the number of contracts in the CURRENT state and from nothing else
   of it: an instantiation that was rolled back leaves no trace in it *)
Lemma classic_address_count e s s' code_id creator :
  length (reg s) = length (reg s') -> new_address e s code_id creator None = new_address e s' code_id creator None.
Proof. unfold new_address. intros ->. reflexivity. Qed.

Lemma classic_address_is e s code_id creator :
  new_address e s code_id creator None = find_classic (code_id, N.of_nat (length (reg s))) (classic_book e).
Proof. reflexivity. Qed.

Lemma salted_address_is e s code_id creator salt co :
  find_code code_id (codes e) = Some co ->
  new_address e s code_id creator (Some salt) = find_salted (c_checksum co) creator salt (salted_book e).
Proof. unfold new_address. intros ->. reflexivity. Qed.

Lemma label_is_required e sender code_id p funds admin salt s :
  run_msg e sender (MInst code_id p funds [] admin salt) s = ([], Err).
Proof. reflexivity. Qed.

(* ---------- what never changes: a generic preservation principle over the whole executor ---------- *)
Section Preserve.
Variable e : env.
Variable R : chain -> chain -> Prop.
Hypothesis R_refl : forall s, R s s.
Hypothesis R_trans : forall a b c, R a b -> R b c -> R a c.
Hypothesis R_bank : forall s b, R s (set_bank s b).
Hypothesis R_cstore : forall s c m, R s (cstore_set s c m).
Hypothesis R_register : forall s code_id creator admin label salt a s1,
  register_contract e s code_id creator admin label salt = Ok (a, s1) -> R s s1.
Hypothesis R_migrate : forall s c cd new_code, lookup c (reg s) = Some cd ->
  R s (set_reg s (update c {| cd_code := new_code; cd_creator := cd_creator cd; cd_admin := cd_admin cd;
                              cd_label := cd_label cd; cd_created := cd_created cd |} (reg s))).
Hypothesis R_admin : forall s c cd sender na, lookup c (reg s) = Some cd -> cd_admin cd = Some sender ->
  R s (set_reg s (update c {| cd_code := cd_code cd; cd_creator := cd_creator cd; cd_admin := na;
                              cd_label := cd_label cd; cd_created := cd_created cd |} (reg s))).

Lemma move_funds_R s from to funds s1 : move_funds s from to funds = Ok s1 -> R s s1.
Proof.
  unfold move_funds. destruct funds as [|f fr]; [intros H; injection H as <-; apply R_refl|].
  destruct (bank_send (bank s) from to (f :: fr)); intros H; try discriminate. injection H as <-. apply R_bank.
Qed.

Lemma exec_preserves :
  (forall m sender s r s', outc (run_msg e sender m s) = Ok (r, s') -> R s s') /\
  (forall p entry c sender funds rep cid rok s r s',
      outc (run_prog e entry c sender funds rep cid rok p s) = Ok (r, s') -> R s s') /\
  (forall o : output, match o with
                      | OFail => True
                      | OResp _ _ _ sbs => forall c data s r s', outc (process_subs e c sbs data s) = Ok (r, s') -> R s s'
                      end) /\
  (forall l c data s r s', outc (process_subs e c l data s) = Ok (r, s') -> R s s') /\
  (forall sb c s r s', outc (run_sub e c sb s) = Ok (r, s') -> R s s').
Proof.
  apply exec_mutind; try (intros; exact I).
  - (* MBankSend *) intros to amt sender s r s'. cbn [run_msg].
    destruct (bank_send (bank s) sender to amt); cbn; intros H; try discriminate. injection H as _ <-. apply R_bank.
  - intros amt sender s r s'. cbn [run_msg].
    destruct (bank_burn (bank s) sender amt); cbn; intros H; try discriminate. injection H as _ <-. apply R_bank.
  - (* MExec *) intros c p IH funds sender s r s'. cbn [run_msg].
    destruct (negb (is_valid e c)); [discriminate|].
    destruct (move_funds s sender c funds) as [s1| |] eqn:Em; try discriminate.
    pose proof (IH EExec c (Some sender) funds None 0 true s1) as IH1.
    destruct (run_prog e EExec c (Some sender) funds None 0 true p s1) as [tr [[[ev d] s2]| |]]; cbn; intros H; try discriminate.
    injection H as _ <-. eapply R_trans; [eapply move_funds_R; eauto|]. eapply IH1. reflexivity.
  - (* MInst *) intros code_id p IH funds label admin salt sender s r s'. cbn [run_msg].
    destruct label as [|l0 lr]; [discriminate|].
    destruct (register_contract e s code_id sender admin (l0 :: lr) salt) as [[a s1]| |] eqn:Er; try discriminate.
    destruct (move_funds s1 sender a funds) as [s2| |] eqn:Em; try discriminate.
    pose proof (IH EInst a (Some sender) funds None code_id true s2) as IH1.
    destruct (run_prog e EInst a (Some sender) funds None code_id true p s2) as [tr [[[ev d] s3]| |]]; cbn; intros H; try discriminate.
    injection H as _ <-. eapply R_trans; [eapply R_register; eauto|].
    eapply R_trans; [eapply move_funds_R; eauto|]. eapply IH1. reflexivity.
  - (* MMigrate *) intros c new_code p IH sender s r s'. cbn [run_msg].
    destruct (negb (is_valid e c)); [discriminate|].
    destruct (find_code new_code (codes e)); [|discriminate].
    destruct (lookup c (reg s)) as [cd|] eqn:El; [|discriminate].
    destruct (negb (option_eqb beqb (cd_admin cd) (Some sender))); [discriminate|].
    match goal with |- context [run_prog e EMigrate c None [] None new_code true p ?s1] =>
      pose proof (IH EMigrate c None [] None new_code true s1) as IH1;
      destruct (run_prog e EMigrate c None [] None new_code true p s1) as [tr [[[ev d] s2]| |]] end;
      cbn; intros H; try discriminate.
    injection H as _ <-. eapply R_trans; [eapply R_migrate; eauto|]. eapply IH1. reflexivity.
  - (* MUpdateAdmin *) intros c a sender s r s'. cbn [run_msg].
    destruct (negb (is_valid e c)); [discriminate|]. destruct (negb (is_valid e a)); [discriminate|].
    destruct (lookup c (reg s)) as [cd|] eqn:El; [|discriminate].
    destruct (option_eqb beqb (cd_admin cd) (Some sender)) eqn:Ea; cbn [negb]; [|discriminate].
    cbn. intros H. injection H as _ <-. eapply R_admin; eauto. apply option_eqb_some. exact Ea.
  - (* MClearAdmin *) intros c sender s r s'. cbn [run_msg].
    destruct (negb (is_valid e c)); [discriminate|].
    destruct (lookup c (reg s)) as [cd|] eqn:El; [|discriminate].
    destruct (option_eqb beqb (cd_admin cd) (Some sender)) eqn:Ea; cbn [negb]; [|discriminate].
    cbn. intros H. injection H as _ <-. eapply R_admin; eauto. apply option_eqb_some. exact Ea.
  - (* MCustom *) intros ok tag sender s r s'. cbn [run_msg]. destruct ok; cbn; intros H; try discriminate.
    injection H as _ <-. apply R_refl.
  - (* Prog *) intros node acts out IHout entry c sender funds rep cid rok s r s'. cbn [run_prog].
    destruct (lookup c (reg s)) as [cd|]; [|discriminate].
    destruct (find_code (cd_code cd) (codes e)) as [co|]; [|discriminate].
    destruct (negb (ep_available co entry)); [discriminate|].
    destruct (run_actions e s node (cstore_get s c) acts) as [tr_a own'].
    destruct out as [|attrs events data sbs]; [discriminate|].
    destruct (verify_response attrs events); [discriminate|].
    pose proof (IHout c data (cstore_set s c own')) as IH1.
    destruct (process_subs e c sbs data (cstore_set s c own')) as [tr_s [[[ev d] s2]| |]]; cbn; intros H; try discriminate.
    injection H as _ <-. eapply R_trans; [apply R_cstore|]. eapply IH1. reflexivity.
  - (* OResp *) intros attrs events data sbs IH. exact IH.
  - (* SNil *) intros c data s r s'. cbn. intros H. injection H as _ <-. apply R_refl.
  - (* SCons *) intros sb IHsb l IHl c data s r s'. rewrite process_subs_cons.
    pose proof (IHsb c s) as IH1.
    destruct (run_sub e c sb s) as [tr1 [[[ev1 d1] s1]| |]]; try discriminate.
    pose proof (IHl c (or_data d1 data) s1) as IH2.
    destruct (process_subs e c l (or_data d1 data) s1) as [tr2 [[[ev2 d2] s2]| |]]; cbn; intros H; try discriminate.
    injection H as _ <-. eapply R_trans; [eapply IH1; reflexivity|eapply IH2; reflexivity].
  - (* Sub *) intros id payload ro m IHm on_ok IHok on_err IHerr c s r s'. rewrite run_sub_spec. unfold reply_run.
    pose proof (IHm c s) as IH1.
    destruct (run_msg e c m s) as [tr [[[ev d] s1]| |]]; try discriminate.
    + destruct (wants_ok ro).
      * pose proof (IHok EReply c None [] (Some (id, payload, RROk ev d)) 0 true s1) as IH2.
        destruct (run_prog e EReply c None [] (Some (id, payload, RROk ev d)) 0 true on_ok s1) as [tr2 [[[ev2 d2] s2]| |]];
          cbn; intros H; try discriminate.
        injection H as _ <-. eapply R_trans; [eapply IH1; reflexivity|eapply IH2; reflexivity].
      * cbn. intros H. injection H as _ <-. eapply IH1. reflexivity.
    + destruct (wants_err ro); [|discriminate].
      pose proof (IHerr EReply c None [] (Some (id, payload, RRErr)) 0 false s) as IH2.
      destruct (run_prog e EReply c None [] (Some (id, payload, RRErr)) 0 false on_err s) as [tr2 [[[ev2 d2] s2]| |]];
        cbn; intros H; try discriminate.
      injection H as _ <-. eapply IH2. reflexivity.
Qed.

Lemma run_msgs_preserves sender : forall ms s rs s', outc (run_msgs e sender ms s) = Ok (rs, s') -> R s s'.
Proof.
  induction ms as [|m ms IH]; intros s rs s'; cbn [run_msgs].
  - cbn. intros H. injection H as _ <-. apply R_refl.
  - pose proof (proj1 exec_preserves m sender s) as IH1.
    destruct (run_msg e sender m s) as [tr1 [[r1 s1]| |]]; try discriminate.
    pose proof (IH s1) as IH2.
    destruct (run_msgs e sender ms s1) as [tr2 [[rss s2]| |]]; cbn; intros H; try discriminate.
    injection H as _ <-. eapply R_trans; [eapply IH1; reflexivity|eapply IH2; reflexivity].
Qed.

(* every top-level entry point: the state handed back (new on success, OLD otherwise) is R-related *)
Lemma run_top_preserves op s : R s (top_state (run_top e op s)).
Proof.
  unfold top_state. destruct op as [sender ms|sender m|c p|to amt|sender m|sender m]; cbn [run_top].
  - pose proof (run_msgs_preserves sender ms s) as H.
    destruct (run_msgs e sender ms s) as [tr [[rs s']| |]]; cbn [snd]; try apply R_refl. eapply H. reflexivity.
  - pose proof (run_msgs_preserves sender [m] s) as H.
    destruct (run_msgs e sender [m] s) as [tr [[rs s']| |]]; cbn [snd]; try apply R_refl. eapply H. reflexivity.
  - pose proof (proj1 (proj2 exec_preserves) p ESudo c None [] None 0 true s) as H.
    destruct (run_prog e ESudo c None [] None 0 true p s) as [tr [[rs s']| |]]; cbn [snd]; try apply R_refl.
    eapply H. reflexivity.
  - destruct (negb (is_valid e to)); cbn [snd]; [apply R_refl|].
    destruct (bank_mint (bank s) to amt); cbn [snd]; try apply R_refl. apply R_bank.
  - pose proof (run_msgs_preserves sender [m] s) as H.
    destruct (run_msgs e sender [m] s) as [tr [[rs s']| |]]; cbn [snd]; try apply R_refl.
    destruct (helper_inst_addr (snd (first_resp rs))); cbn [snd]; eapply H; reflexivity.
  - pose proof (run_msgs_preserves sender [m] s) as H.
    destruct (run_msgs e sender [m] s) as [tr [[rs s']| |]]; cbn [snd]; try apply R_refl.
    destruct (helper_exec_data (snd (first_resp rs))); cbn [snd]; eapply H; reflexivity.
Qed.
End Preserve.

(* ---------- instance 1: contracts are never removed; creator, label, creation height never change;
   a contract without admin never gets one; code id and admin change only through R_migrate / R_admin ---------- *)
Definition cd_ext (cd cd' : cdata) : Prop :=
  cd_creator cd' = cd_creator cd /\ cd_label cd' = cd_label cd /\ cd_created cd' = cd_created cd /\
  (cd_admin cd = None -> cd_admin cd' = None).
Definition reg_ext (s s' : chain) : Prop :=
  forall a cd, lookup a (reg s) = Some cd -> exists cd', lookup a (reg s') = Some cd' /\ cd_ext cd cd'.

Lemma cd_ext_refl cd : cd_ext cd cd. Proof. repeat split; auto. Qed.
Lemma reg_ext_refl s : reg_ext s s. Proof. intros a cd H. exists cd. split; [exact H|apply cd_ext_refl]. Qed.
Lemma reg_ext_trans a b c : reg_ext a b -> reg_ext b c -> reg_ext a c.
Proof.
  intros H1 H2 x cd Hx. destruct (H1 _ _ Hx) as [cd1 [Hl1 [E1 [E2 [E3 E4]]]]].
  destruct (H2 _ _ Hl1) as [cd2 [Hl2 [F1 [F2 [F3 F4]]]]]. exists cd2. split; [exact Hl2|].
  repeat split; try congruence. auto.
Qed.
Lemma reg_ext_same_reg s s' : reg s' = reg s -> reg_ext s s'.
Proof. intros E a cd H. rewrite E. exists cd. split; [exact H|apply cd_ext_refl]. Qed.
Lemma reg_ext_update s c cd cd' : lookup c (reg s) = Some cd -> cd_ext cd cd' ->
  reg_ext s (set_reg s (update c cd' (reg s))).
Proof.
  intros Hl He a cd0 Ha. cbn [reg set_reg]. rewrite lookup_update. destruct (beqb a c) eqn:E.
  - apply beqb_eq in E. subst a. rewrite Hl in Ha. injection Ha as <-. exists cd'. auto.
  - exists cd0. split; [exact Ha|apply cd_ext_refl].
Qed.

Lemma reg_ext_hyps e :
  (forall s b, reg_ext s (set_bank s b)) /\
  (forall s c m, reg_ext s (cstore_set s c m)) /\
  (forall s code_id creator admin label salt a s1,
     register_contract e s code_id creator admin label salt = Ok (a, s1) -> reg_ext s s1) /\
  (forall s c cd new_code, lookup c (reg s) = Some cd ->
     reg_ext s (set_reg s (update c {| cd_code := new_code; cd_creator := cd_creator cd; cd_admin := cd_admin cd;
                                       cd_label := cd_label cd; cd_created := cd_created cd |} (reg s)))) /\
  (forall s c cd sender na, lookup c (reg s) = Some cd -> cd_admin cd = Some sender ->
     reg_ext s (set_reg s (update c {| cd_code := cd_code cd; cd_creator := cd_creator cd; cd_admin := na;
                                       cd_label := cd_label cd; cd_created := cd_created cd |} (reg s)))).
Proof.
  split; [intros; apply reg_ext_same_reg; reflexivity|].
  split; [intros; apply reg_ext_same_reg; reflexivity|].
  split; [|split].
  - intros s code_id creator admin label salt a s1 H. apply register_records in H.
    destruct H as [Hn [_ [Ho _]]]. intros x cd Hx. exists cd. split; [|apply cd_ext_refl].
    rewrite Ho; [exact Hx|]. intros ->. congruence.
  - intros. eapply reg_ext_update; eauto. repeat split; auto.
  - intros s c cd sender na Hl Had. eapply reg_ext_update; eauto. repeat split; auto. cbn. congruence.
Qed.

Lemma exec_reg_ext e :
  (forall m sender s r s', outc (run_msg e sender m s) = Ok (r, s') -> reg_ext s s') /\
  (forall p entry c sender funds rep cid rok s r s',
      outc (run_prog e entry c sender funds rep cid rok p s) = Ok (r, s') -> reg_ext s s') /\
  (forall sb c s r s', outc (run_sub e c sb s) = Ok (r, s') -> reg_ext s s') /\
  (forall sender ms s rs s', outc (run_msgs e sender ms s) = Ok (rs, s') -> reg_ext s s') /\
  (forall op s, reg_ext s (top_state (run_top e op s))).
Proof.
  destruct (reg_ext_hyps e) as [Hb [Hc [Hr [Hm Ha]]]].
  pose proof (exec_preserves e reg_ext reg_ext_refl reg_ext_trans Hb Hc Hr Hm Ha) as [P1 [P2 [_ [_ P5]]]].
  split; [exact P1|]. split; [exact P2|]. split; [exact P5|]. split.
  - intros sender. exact (run_msgs_preserves e reg_ext reg_ext_refl reg_ext_trans Hb Hc Hr Hm Ha sender).
  - exact (run_top_preserves e reg_ext reg_ext_refl reg_ext_trans Hb Hc Hr Hm Ha).
Qed.

(* ---------- instance 2: the number of contracts never decreases ---------- *)
Lemma length_update_ge {A} k (a : A) l : (length l <= length (update k a l))%nat.
Proof.
  unfold update, text, bytes in *. induction l as [|[k' a'] l IH]; cbn [insert length]; [lia|].
  destruct (bcmp k k'); cbn [length]; lia.
Qed.

(* ---------- salted instantiation: a repetition is rejected ---------- *)
(* after an instantiation succeeded at address a, a stays registered in every state that follows it in the
   same or any later transaction (reg_ext), so a second instantiation deriving the same address fails at
   the duplicate check, before funds move and before any contract code runs *)
Lemma inst_ok_spec e sender code_id p funds label admin salt s r s' :
  outc (run_msg e sender (MInst code_id p funds label admin salt) s) = Ok (r, s') ->
  label <> [] /\
  exists a s1, register_contract e s code_id sender admin label salt = Ok (a, s1) /\ reg_ext s1 s' /\
    (exists cd', lookup a (reg s') = Some cd' /\ cd_creator cd' = sender /\ cd_label cd' = label /\
                 cd_created cd' = b_height (blk e)) /\
    exists d, snd r = Some (encode_inst_resp a d).
Proof.
  intros H0. assert (Hlab : label <> []) by (intros ->; discriminate H0). split; [exact Hlab|].
  revert H0. cbn [run_msg]. destruct label as [|l0 lr]; [congruence|].
  destruct (register_contract e s code_id sender admin (l0 :: lr) salt) as [[a s1]| |] eqn:Er; try discriminate.
  destruct (move_funds s1 sender a funds) as [s2| |] eqn:Em; try discriminate.
  pose proof (proj1 (proj2 (exec_reg_ext e)) p EInst a (Some sender) funds None code_id true s2) as Hx.
  destruct (run_prog e EInst a (Some sender) funds None code_id true p s2) as [tr [[[ev d] s3]| |]]; cbn; intros H; try discriminate.
  injection H as <- <-. exists a, s1. split; [reflexivity|].
  assert (Hext : reg_ext s1 s3).
  { eapply reg_ext_trans; [apply reg_ext_same_reg; apply move_funds_spec in Em; destruct Em as [E _]; exact E|].
    eapply Hx. reflexivity. }
  split; [exact Hext|]. split.
  - apply register_records in Er. destruct Er as [_ [Hl _]]. destruct (Hext _ _ Hl) as [cd' [Hl' [E1 [E2 [E3 _]]]]].
    exists cd'. cbn in *. auto.
  - eexists. reflexivity.
Qed.

(* a second instantiation that derives the same salted address (same checksum, creator, salt; any code id with
   that checksum, any label, funds, admin, message, any later state, even a later code table) is rejected at the
   duplicate check: no funds move, no contract code runs, no state is handed on *)
Lemma salted_repeat_rejected e sender code_id p funds label admin salt s r s' :
  outc (run_msg e sender (MInst code_id p funds label admin (Some salt)) s) = Ok (r, s') ->
  forall e' s'' code_id' co co' p' funds' label' admin',
    reg_ext s' s'' -> salted_book e' = salted_book e ->
    find_code code_id (codes e) = Some co -> find_code code_id' (codes e') = Some co' -> c_checksum co' = c_checksum co ->
    run_msg e' sender (MInst code_id' p' funds' label' admin' (Some salt)) s'' = ([], Err).
Proof.
  intros H e' s'' code_id' co co' p' funds' label' admin' Hext Hbook Hco Hco' Hck.
  apply inst_ok_spec in H. destruct H as [_ [a [s1 [Hr [_ [[cd' [Hl _]] _]]]]]].
  apply register_records in Hr. destruct Hr as [_ [_ [_ [_ [Hna [_ [_ [_ Hsok]]]]]]]].
  rewrite (salted_address_is e s code_id sender salt co Hco) in Hna.
  destruct (Hext _ _ Hl) as [cd'' [Hl'' _]].
  cbn [run_msg]. destruct label' as [|l0 lr]; [reflexivity|].
  unfold register_contract. rewrite Hco', Hsok. cbn [negb]. rewrite (salted_address_is e' s'' code_id' sender salt co' Hco').
  rewrite Hck, Hbook, Hna, Hl''. reflexivity.
Qed.

(* ---------- C12: admin operations ---------- *)
Definition admin_op_on (m : msg) (c : text) : Prop :=
  match m with MMigrate c' _ _ | MUpdateAdmin c' _ | MClearAdmin c' => c' = c | _ => False end.

Lemma admin_ops_need_admin e sender m c s r s' :
  admin_op_on m c -> outc (run_msg e sender m s) = Ok (r, s') ->
  exists cd, lookup c (reg s) = Some cd /\ cd_admin cd = Some sender.
Proof.
  destruct m as [| | | |c' n p|c' a|c'|]; cbn [admin_op_on]; try contradiction; intros <- H.
  - apply migrate_authorised in H. destruct H as [cd [H1 [H2 _]]]. eauto.
  - apply update_admin_authorised in H. destruct H as [cd [H1 [H2 _]]]. eauto.
  - apply clear_admin_authorised in H. destruct H as [cd [H1 [H2 _]]]. eauto.
Qed.

(* the wrong sender — the creator, a former admin, a stranger, another contract, anybody when there is no
   admin — is refused before anything is written and before any contract code runs *)
Lemma admin_ops_refused e sender m c s :
  admin_op_on m c ->
  (forall cd, lookup c (reg s) = Some cd -> cd_admin cd <> Some sender) ->
  run_msg e sender m s = ([], Err).
Proof.
  intros Hop Hn.
  assert (E : forall cd, lookup c (reg s) = Some cd -> option_eqb beqb (cd_admin cd) (Some sender) = false).
  { intros cd Hl. destruct (option_eqb beqb (cd_admin cd) (Some sender)) eqn:E; [|reflexivity].
    apply option_eqb_some in E. apply Hn in Hl. contradiction. }
  destruct m as [| | | |c' n p|c' a|c'|]; cbn [admin_op_on] in Hop; try contradiction; subst c'; cbn [run_msg].
  - destruct (negb (is_valid e c)); [reflexivity|]. destruct (find_code n (codes e)); [|reflexivity].
    destruct (lookup c (reg s)) as [cd|] eqn:El; [|reflexivity]. rewrite (E cd eq_refl). reflexivity.
  - destruct (negb (is_valid e c)); [reflexivity|]. destruct (negb (is_valid e a)); [reflexivity|].
    destruct (lookup c (reg s)) as [cd|] eqn:El; [|reflexivity]. rewrite (E cd eq_refl). reflexivity.
  - destruct (negb (is_valid e c)); [reflexivity|].
    destruct (lookup c (reg s)) as [cd|] eqn:El; [|reflexivity]. rewrite (E cd eq_refl). reflexivity.
Qed.

(* whatever the reason an admin operation sent as a top-level message fails for (unauthorised, unknown code,
   no migrate entry point, the migrate entry point itself failing AFTER the handler saved the new code id,
   a failing sub-message of it), the chain state afterwards is the state before *)
Lemma failed_top_unchanged e sender m s :
  is_ok (top_outcome (run_top e (TExec sender m) s)) = false -> top_state (run_top e (TExec sender m) s) = s.
Proof.
  unfold top_outcome, top_state. cbn [run_top].
  destruct (run_msgs e sender [m] s) as [tr [[rs s']| |]]; cbn; [discriminate|reflexivity|reflexivity].
Qed.

(* inside a transaction: the dispatcher continues (if at all) from the state in which it dispatched *)
Lemma failed_sub_unchanged e d id payload ro m on_ok on_err s :
  outc (run_msg e d m s) = Err ->
  outc (run_sub e d (Sub id payload ro m on_ok on_err) s) =
  if wants_err ro then outc (reply_run e d id payload RRErr on_err s) else Err.
Proof.
  intros H. rewrite run_sub_spec. destruct (run_msg e d m s) as [tr [[[ev dd] s1]| |]]; cbn in H; try discriminate.
  destruct (wants_err ro); [|reflexivity].
  destruct (reply_run e d id payload RRErr on_err s) as [tr2 r2]. reflexivity.
Qed.

Definition code_at (e : env) (s : chain) (c : text) : option code :=
  match lookup c (reg s) with Some cd => find_code (cd_code cd) (codes e) | None => None end.

(* every kind of call at address c — execute, sudo, reply, migrate, smart query — is dispatched to the code
   the registry names for c at that moment *)
Lemma served_by_code_at e s c co : code_at e s c = Some co ->
  (forall entry, serving e s c entry = if ep_available co entry then Some co else None) /\
  (forall entry sender funds rep cid rok p, ep_available co entry = true ->
     exists rest, trc (run_prog e entry c sender funds rep cid rok p s) =
                  RCall (node_of p) entry c sender funds (blk e) (c_tag co) rep :: rest) /\
  (forall node own q, is_valid e c = true ->
     run_qact e s node own (QSmart c q) =
     let (tr, r) := run_qprog e s c (c_tag co) q in tr ++ [RObs node (VSmart r)]).
Proof.
  unfold code_at. destruct (lookup c (reg s)) as [cd|] eqn:El; [|discriminate]. intros Hf.
  assert (Hs : forall entry, serving e s c entry = if ep_available co entry then Some co else None).
  { intros entry. unfold serving. rewrite El, Hf. reflexivity. }
  split; [exact Hs|]. split.
  - intros entry sender funds rep cid rok p Hav.
    pose proof (run_prog_head e entry c sender funds rep cid rok p s) as H. rewrite Hs, Hav in H. exact H.
  - intros node own q Hv. cbn [run_qact]. rewrite Hv, El, Hf. reflexivity.
Qed.

Definition migrated (cd : cdata) (new_code : N) : cdata :=
  {| cd_code := new_code; cd_creator := cd_creator cd; cd_admin := cd_admin cd; cd_label := cd_label cd;
     cd_created := cd_created cd |}.
Definition with_admin (cd : cdata) (na : option text) : cdata :=
  {| cd_code := cd_code cd; cd_creator := cd_creator cd; cd_admin := na; cd_label := cd_label cd;
     cd_created := cd_created cd |}.

Lemma migrate_effect e sender c new_code p s r s' :
  outc (run_msg e sender (MMigrate c new_code p) s) = Ok (r, s') ->
  exists cd co node acts attrs events data sbs,
    p = Prog node acts (OResp attrs events data sbs) /\
    lookup c (reg s) = Some cd /\ cd_admin cd = Some sender /\
    find_code new_code (codes e) = Some co /\ has_migrate co = true /\
    let s1 := set_reg s (update c (migrated cd new_code) (reg s)) in
    let body := run_actions e s1 node (cstore_get s c) acts in
    (* the registry names the new code before the entry point runs: same address, other fields kept *)
    lookup c (reg s1) = Some (migrated cd new_code) /\ code_at e s1 c = Some co /\
    (* ONE call of the migrate entry point of the NEW code, at c, no sender, no funds; its body reads and
       writes the storage c already had; then its sub-messages run from the state holding the body's writes *)
    trc (run_msg e sender (MMigrate c new_code p) s) =
      RCall node EMigrate c None [] (blk e) (c_tag co) None :: fst body ++
      trc (process_subs e c sbs data (cstore_set s1 c (snd body))) /\
    (exists ev d, outc (process_subs e c sbs data (cstore_set s1 c (snd body))) = Ok ((ev, d), s') /\
                  r = (base_events c (ep_event EMigrate c new_code true) attrs events ++ ev, option_map encode_exec_resp d)) /\
    (* without sub-messages: only c's storage and c's code id changed *)
    (sbs = SNil -> s' = cstore_set s1 c (snd body) /\ code_at e s' c = Some co).
Proof.
  cbn [run_msg]. destruct (negb (is_valid e c)); [discriminate|].
  destruct (find_code new_code (codes e)) as [co|] eqn:Ec; [|discriminate].
  destruct (lookup c (reg s)) as [cd|] eqn:El; [|discriminate].
  destruct (option_eqb beqb (cd_admin cd) (Some sender)) eqn:Ea; cbn [negb]; [|discriminate].
  apply option_eqb_some in Ea. fold (migrated cd new_code).
  set (s1 := set_reg s (update c (migrated cd new_code) (reg s))).
  assert (Hl1 : lookup c (reg s1) = Some (migrated cd new_code)) by (unfold s1; cbn [reg set_reg]; apply lookup_update_same).
  assert (Hc1 : code_at e s1 c = Some co) by (unfold code_at; rewrite Hl1; exact Ec).
  destruct p as [node acts out]. cbn [run_prog]. rewrite Hl1. cbn [cd_code migrated]. rewrite Ec. cbn [ep_available].
  destruct (has_migrate co) eqn:Hm; cbn [negb]; [|discriminate].
  assert (Hcs : cstore_get s1 c = cstore_get s c) by reflexivity. rewrite Hcs.
  destruct (run_actions e s1 node (cstore_get s c) acts) as [tr_a own'] eqn:Eb.
  destruct out as [|attrs events data sbs]; [discriminate|].
  destruct (verify_response attrs events); [discriminate|].
  destruct (process_subs e c sbs data (cstore_set s1 c own')) as [tr_s [[[ev d] s2]| |]] eqn:Ep;
    unfold outc, trc; cbn [fst snd]; intros H; try discriminate.
  injection H as <- <-. exists cd, co, node, acts, attrs, events, data, sbs.
  split; [reflexivity|]. split; [reflexivity|]. split; [exact Ea|]. split; [reflexivity|]. split; [exact Hm|].
  lazy zeta. fold s1. rewrite Eb. cbn [fst snd]. rewrite Ep. cbn [fst snd].
  split; [exact Hl1|]. split; [exact Hc1|]. split; [reflexivity|]. split; [exists ev, d; auto|].
  intros ->. cbn [process_subs] in Ep. injection Ep as _ _ _ <-. split; [reflexivity|]. exact Hc1.
Qed.

(* a successful admin change is visible at once and governs the next attempt *)
Lemma admin_change_immediate e sender c a s r s' :
  outc (run_msg e sender (MUpdateAdmin c a) s) = Ok (r, s') ->
  exists cd, lookup c (reg s) = Some cd /\ cd_admin cd = Some sender /\
    lookup c (reg s') = Some (with_admin cd (Some a)) /\
    (* anybody but the new admin (the former admin included) is refused *)
    (forall x m, x <> a -> admin_op_on m c -> run_msg e x m s' = ([], Err)) /\
    (* the new admin is accepted *)
    (forall a2, is_valid e a2 = true -> is_ok (outc (run_msg e a (MUpdateAdmin c a2) s')) = true) /\
    is_ok (outc (run_msg e a (MClearAdmin c) s')) = true /\
    (forall n p, In n (ids (codes e)) ->
       is_ok (outc (run_msg e a (MMigrate c n p) s')) =
       is_ok (outc (run_prog e EMigrate c None [] None n true p
                      (set_reg s' (update c (migrated (with_admin cd (Some a)) n) (reg s')))))).
Proof.
  intros H. assert (Hv : is_valid e c = true).
  { cbn [run_msg] in H. destruct (is_valid e c); [reflexivity|discriminate]. }
  apply update_admin_authorised in H. destruct H as [cd [Hl [Had [Hr _]]]].
  exists cd. split; [exact Hl|]. split; [exact Had|].
  assert (Hl' : lookup c (reg s') = Some (with_admin cd (Some a))) by (rewrite Hr; apply lookup_update_same).
  split; [exact Hl'|]. split; [|split; [|split]].
  - intros x m Hx Hop. eapply admin_ops_refused; [exact Hop|]. intros cd0 E. rewrite Hl' in E. injection E as <-.
    cbn. congruence.
  - intros a2 Hv2. cbn [run_msg]. rewrite Hv, Hv2, Hl'. cbn [negb with_admin cd_admin option_eqb]. rewrite beqb_refl. reflexivity.
  - cbn [run_msg]. rewrite Hv, Hl'. cbn [negb with_admin cd_admin option_eqb]. rewrite beqb_refl. reflexivity.
  - intros n p Hin. apply has_id_in in Hin. unfold has_id in Hin.
    destruct (find_code n (codes e)) as [co|] eqn:Ec; [|discriminate].
    cbn [run_msg]. rewrite Hv, Ec, Hl'. cbn [negb with_admin cd_admin option_eqb]. rewrite beqb_refl. cbn [negb].
    unfold migrated, with_admin. cbn [cd_code cd_creator cd_admin cd_label cd_created].
    match goal with |- context [run_prog e EMigrate c None [] None n true p ?s1] =>
      destruct (run_prog e EMigrate c None [] None n true p s1) as [tr [[[ev d] s2]| |]] end; reflexivity.
Qed.

(* after ClearAdmin: no admin, and in EVERY state that can follow (reg_ext is preserved by every message, every
   transaction and every code-table operation) every admin operation on c by anybody is refused *)
Lemma clear_admin_final e sender c s r s' :
  outc (run_msg e sender (MClearAdmin c) s) = Ok (r, s') ->
  exists cd, lookup c (reg s) = Some cd /\ cd_admin cd = Some sender /\ lookup c (reg s') = Some (with_admin cd None) /\
    forall e' s'' x m, reg_ext s' s'' -> admin_op_on m c -> run_msg e' x m s'' = ([], Err).
Proof.
  intros H. apply clear_admin_authorised in H. destruct H as [cd [Hl [Had [Hr _]]]].
  exists cd. split; [exact Hl|]. split; [exact Had|].
  assert (Hl' : lookup c (reg s') = Some (with_admin cd None)) by (rewrite Hr; apply lookup_update_same).
  split; [exact Hl'|]. intros e' s'' x m Hext Hop. eapply admin_ops_refused; [exact Hop|].
  intros cd0 E. destruct (Hext _ _ Hl') as [cd'' [Hl'' [_ [_ [_ Hnone]]]]]. rewrite Hl'' in E. injection E as <-.
  rewrite (Hnone eq_refl). discriminate.
Qed.

(* a contract instantiated without admin never has one *)
Lemma no_admin_final e' s s'' c cd x m :
  lookup c (reg s) = Some cd -> cd_admin cd = None -> reg_ext s s'' -> admin_op_on m c -> run_msg e' x m s'' = ([], Err).
Proof.
  intros Hl Hn Hext Hop. eapply admin_ops_refused; [exact Hop|].
  intros cd0 E. destruct (Hext _ _ Hl) as [cd'' [Hl'' [_ [_ [_ Hnone]]]]]. rewrite Hl'' in E. injection E as <-.
  rewrite (Hnone Hn). discriminate.
Qed.

(* ---------- histories: code-table operations interleaved with top-level calls and queries ---------- *)
Record renv := {
  re_valid : list text;
  re_classic : list ((N * N) * text);
  re_salted : list ((bytes * text * bytes) * text);
  re_dck : ckgen
}.
(* the environment of ONE top-level call: the table as it is at that moment *)
Definition henv (re : renv) (t : ctable) (b : blockinfo) : env :=
  {| codes := t; blk := b; valid_addrs := re_valid re; classic_book := re_classic re; salted_book := re_salted re |}.

Inductive hop :=
| HStore (creator : text) (src : source)                  (* App::store_code / store_code_with_creator *)
| HStoreWithId (creator : text) (id : N) (src : source)   (* App::store_code_with_id *)
| HDuplicate (id : N)                                     (* App::duplicate_code *)
| HTop (b : blockinfo) (op : topop)
| HQueryCodeInfo (id : N)                                 (* WasmQuery::CodeInfo *)
| HQueryInfo (c : text)                                   (* WasmQuery::ContractInfo *)
| HContractData (c : text)                                (* App::contract_data *)
| HDump (c : text).                                       (* App::dump_wasm_raw *)

Inductive hres :=
| RId (r : outcome N)
| RTop (tr : trace) (o : outcome (list resp))
| RCodeInfo (r : option (N * text * bytes))
| RInfo (r : option (N * text * option text))
| RData (r : option cdata)
| RDump (l : list (bytes * bytes)).

Definition id_result (r : outcome (N * ctable)) (t : ctable) : hres * ctable :=
  match r with Ok (id, t') => (RId (Ok id), t') | Err => (RId Err, t) | Panic => (RId Panic, t) end.

Definition info_query (re : renv) (s : chain) (c : text) : option (N * text * option text) :=
  if existsb (beqb c) (re_valid re)
  then match lookup c (reg s) with Some cd => Some (cd_code cd, cd_creator cd, cd_admin cd) | None => None end
  else None.
Definition code_info_query (t : ctable) (id : N) : option (N * text * bytes) :=
  match code_data t id with Some c => Some (id, c_creator c, c_checksum c) | None => None end.

Definition hstate := (ctable * chain)%type.

Definition run_hop (re : renv) (h : hop) (ts : hstate) : hres * hstate :=
  match h with
  | HStore creator src =>
      let (r, t') := id_result (store_code (re_dck re) (fst ts) creator src) (fst ts) in (r, (t', snd ts))
  | HStoreWithId creator id src =>
      let (r, t') := id_result (store_code_with_id (re_dck re) (fst ts) creator id src) (fst ts) in (r, (t', snd ts))
  | HDuplicate id =>
      let (r, t') := id_result (duplicate_code (fst ts) id) (fst ts) in (r, (t', snd ts))
  | HTop b op =>
      let x := run_top (henv re (fst ts) b) op (snd ts) in (RTop (top_trace x) (top_outcome x), (fst ts, top_state x))
  | HQueryCodeInfo id => (RCodeInfo (code_info_query (fst ts) id), ts)
  | HQueryInfo c => (RInfo (info_query re (snd ts) c), ts)
  | HContractData c => (RData (lookup c (reg (snd ts))), ts)
  | HDump c => (RDump (cstore_get (snd ts) c), ts)
  end.

Fixpoint run_hist (re : renv) (hs : list hop) (ts : hstate) : list hres * hstate :=
  match hs with
  | [] => ([], ts)
  | h :: r => let (x, ts1) := run_hop re h ts in
              let (xs, ts2) := run_hist re r ts1 in (x :: xs, ts2)
  end.

(* the queries are the executor's own query handlers *)
Lemma info_query_is_QInfo re t b s node own c :
  run_qact (henv re t b) s node own (QInfo c) = [RObs node (VInfo (info_query re s c))].
Proof. reflexivity. Qed.
Lemma code_info_query_is_QCodeInfo re t b s node own id : 0 < id \/ ~ In 0 (ids t) ->
  run_qact (henv re t b) s node own (QCodeInfo id) = [RObs node (VCodeInfo (code_info_query t id))].
Proof.
  intros H. cbn [run_qact henv codes]. unfold code_info_query, code_data.
  destruct (N.ltb_spec id 1) as [H1|H1]; [|reflexivity].
  assert (id = 0) by lia. subst id. destruct H as [H|H]; [lia|]. rewrite (not_in_find 0 t H). reflexivity.
Qed.

(* ---------- invariants of every history ---------- *)
Definition tinv (t : ctable) : Prop := tsorted t /\ Forall (fun i => 0 < i) (ids t).
Definition table_ext (t t' : ctable) : Prop := forall id c, find_code id t = Some c -> find_code id t' = Some c.

Lemma tinv_nil : tinv []. Proof. split; [apply tsorted_nil|constructor]. Qed.
Lemma table_ext_refl t : table_ext t t. Proof. intros id c H. exact H. Qed.
Lemma table_ext_trans a b c : table_ext a b -> table_ext b c -> table_ext a c.
Proof. intros H1 H2 id co H. apply H2, H1, H. Qed.
Lemma table_ext_ids t t' i : table_ext t t' -> In i (ids t) -> In i (ids t').
Proof.
  intros H Hin. apply has_id_in in Hin. unfold has_id in Hin. destruct (find_code i t) as [c|] eqn:E; [|discriminate].
  eapply find_in. apply H. exact E.
Qed.

Lemma tinv_tinsert id c t : tinv t -> 0 < id -> tinv (tinsert id c t).
Proof.
  intros [Hs Hp] Hid. split; [apply tsorted_tinsert; exact Hs|].
  apply Forall_forall. intros x Hx. apply ids_tinsert in Hx. destruct Hx as [->|Hx]; [exact Hid|].
  rewrite Forall_forall in Hp. apply Hp, Hx.
Qed.
Lemma table_ext_tinsert id c t : ~ In id (ids t) -> table_ext t (tinsert id c t).
Proof.
  intros Hn j cj Hj. rewrite find_tinsert. destruct (N.eqb_spec j id) as [->|]; [|exact Hj].
  exfalso. apply Hn. eapply find_in; eauto.
Qed.

(* one code-table operation: what it returns (in terms of the largest id in use), and that a refused
   operation leaves the table as it was *)
Definition id_op (dck : ckgen) (h : hop) (t : ctable) : option (outcome (N * ctable)) :=
  match h with
  | HStore creator src => Some (store_code dck t creator src)
  | HStoreWithId creator id src => Some (store_code_with_id dck t creator id src)
  | HDuplicate id => Some (duplicate_code t id)
  | _ => None
  end.

Lemma id_op_step dck h t r : tinv t -> id_op dck h t = Some r ->
  match r with
  | Ok (id, t') => 0 < id /\ ~ In id (ids t) /\ In id (ids t') /\ tinv t' /\ table_ext t t'
  | _ => True
  end.
Proof.
  intros [Hs Hp] Hop. destruct h as [creator src|creator id src|id| | | | |]; cbn [id_op] in Hop; try discriminate;
    injection Hop as <-.
  - pose proof (store_code_spec dck t creator src Hs) as H. unfold store_code in *.
    destruct (next_code_id t) as [id|]; [|exact I]. destruct H as [-> [_ [Hn [Hf _]]]].
    unfold save_code. split; [lia|]. split; [exact Hn|]. split; [apply ids_tinsert; auto|].
    split; [apply tinv_tinsert; [split; assumption|lia]|apply table_ext_tinsert; exact Hn].
  - destruct (store_code_with_id dck t creator id src) as [[id' t']| |] eqn:E; try exact I.
    apply store_with_id_inv in E. destruct E as [-> [H0 [Hn ->]]]. unfold save_code.
    split; [lia|]. split; [exact Hn|]. split; [apply ids_tinsert; auto|].
    split; [apply tinv_tinsert; [split; assumption|lia]|apply table_ext_tinsert; exact Hn].
  - pose proof (duplicate_spec t id Hs) as H. unfold duplicate_code in *.
    destruct (code_data t id) as [c|]; [|exact I]. destruct (next_code_id t) as [n|]; [|exact I].
    destruct H as [c0 [_ [_ [-> [_ [Hn _]]]]]].
    split; [lia|]. split; [exact Hn|]. split; [apply ids_tinsert; auto|].
    split; [apply tinv_tinsert; [split; assumption|lia]|apply table_ext_tinsert; exact Hn].
Qed.

Definition returned_id (r : hres) : list N := match r with RId (Ok i) => [i] | _ => [] end.
Definition returned_ids (rs : list hres) : list N := flat_map returned_id rs.

Lemma run_hop_inv re h t s : tinv t ->
  let t' := fst (snd (run_hop re h (t, s))) in
  let s' := snd (snd (run_hop re h (t, s))) in
  tinv t' /\ table_ext t t' /\ reg_ext s s' /\
  (forall i, In i (returned_id (fst (run_hop re h (t, s)))) -> 0 < i /\ ~ In i (ids t) /\ In i (ids t')).
Proof.
  intros Hi.
  assert (Hid : forall r, id_op (re_dck re) h t = Some r ->
            let x := id_result r t in
            tinv (snd x) /\ table_ext t (snd x) /\
            (forall i, In i (returned_id (fst x)) -> 0 < i /\ ~ In i (ids t) /\ In i (ids (snd x)))).
  { intros r Hr. pose proof (id_op_step _ _ _ _ Hi Hr) as H. destruct r as [[id t']| |]; cbn [id_result fst snd returned_id].
    - destruct H as [H1 [H2 [H3 [H4 H5]]]]. split; [exact H4|]. split; [exact H5|].
      intros i [<-|[]]. auto.
    - split; [exact Hi|]. split; [apply table_ext_refl|]. intros i [].
    - split; [exact Hi|]. split; [apply table_ext_refl|]. intros i []. }
  destruct h as [creator src|creator id src|id|b op|id|c|c|c]; cbn [run_hop fst snd].
  - specialize (Hid _ eq_refl). cbn zeta in Hid.
    destruct (id_result (store_code (re_dck re) t creator src) t) as [r t']. cbn [fst snd] in *.
    destruct Hid as [H1 [H2 H3]]. split; [exact H1|]. split; [exact H2|]. split; [apply reg_ext_refl|exact H3].
  - specialize (Hid _ eq_refl). cbn zeta in Hid.
    destruct (id_result (store_code_with_id (re_dck re) t creator id src) t) as [r t']. cbn [fst snd] in *.
    destruct Hid as [H1 [H2 H3]]. split; [exact H1|]. split; [exact H2|]. split; [apply reg_ext_refl|exact H3].
  - specialize (Hid _ eq_refl). cbn zeta in Hid.
    destruct (id_result (duplicate_code t id) t) as [r t']. cbn [fst snd] in *.
    destruct Hid as [H1 [H2 H3]]. split; [exact H1|]. split; [exact H2|]. split; [apply reg_ext_refl|exact H3].
  - split; [exact Hi|]. split; [apply table_ext_refl|]. split; [|intros i []].
    apply (proj2 (proj2 (proj2 (proj2 (exec_reg_ext (henv re t b)))))).
  - split; [exact Hi|]. split; [apply table_ext_refl|]. split; [apply reg_ext_refl|intros i []].
  - split; [exact Hi|]. split; [apply table_ext_refl|]. split; [apply reg_ext_refl|intros i []].
  - split; [exact Hi|]. split; [apply table_ext_refl|]. split; [apply reg_ext_refl|intros i []].
  - split; [exact Hi|]. split; [apply table_ext_refl|]. split; [apply reg_ext_refl|intros i []].
Qed.

(* over ANY history: the table stays a map with pairwise distinct, non-zero ids; every id that was in it, and
   every id returned by a store / duplicate call on the way, is still in it, unchanged, at the end; returned
   ids are pairwise distinct and were not in use before; contracts are never removed (reg_ext) *)
Lemma run_hist_inv re hs : forall t s, tinv t ->
  let rs := fst (run_hist re hs (t, s)) in
  let t' := fst (snd (run_hist re hs (t, s))) in
  let s' := snd (snd (run_hist re hs (t, s))) in
  tinv t' /\ table_ext t t' /\ reg_ext s s' /\ NoDup (returned_ids rs) /\
  (forall i, In i (returned_ids rs) -> 0 < i /\ ~ In i (ids t) /\ In i (ids t')).
Proof.
  induction hs as [|h hs IH]; intros t s Hi; cbn [run_hist].
  - cbn. split; [exact Hi|]. split; [apply table_ext_refl|]. split; [apply reg_ext_refl|]. split; [constructor|intros i []].
  - pose proof (run_hop_inv re h t s Hi) as Hh. cbn zeta in Hh.
    destruct (run_hop re h (t, s)) as [x [t1 s1]]. cbn [fst snd] in Hh. destruct Hh as [Hi1 [Ht1 [Hr1 Hx]]].
    specialize (IH t1 s1 Hi1). cbn zeta in IH.
    destruct (run_hist re hs (t1, s1)) as [xs [t2 s2]]. cbn [fst snd] in *.
    destruct IH as [Hi2 [Ht2 [Hr2 [Hnd Hret]]]].
    split; [exact Hi2|]. split; [eapply table_ext_trans; eauto|]. split; [eapply reg_ext_trans; eauto|].
    unfold returned_ids in *. cbn [flat_map]. split.
    + destruct x as [[i| |]| | | | |]; cbn [returned_id app]; try exact Hnd.
      constructor; [|exact Hnd]. intros Hin. destruct (Hret _ Hin) as [_ [Hn _]]. apply Hn.
      apply (Hx i). left. reflexivity.
    + intros i Hin. apply in_app_or in Hin. destruct Hin as [Hin|Hin].
      * destruct (Hx _ Hin) as [H1 [H2 H3]]. split; [exact H1|]. split; [exact H2|]. eapply table_ext_ids; eauto.
      * destruct (Hret _ Hin) as [H1 [H2 H3]]. split; [exact H1|]. split; [|exact H3].
        intros Hin0. apply H2. eapply table_ext_ids; eauto.
Qed.

Lemma tinv_ids_pos t i : tinv t -> In i (ids t) -> 0 < i.
Proof. intros [_ Hp] Hin. rewrite Forall_forall in Hp. apply Hp, Hin. Qed.

(* code-table operations never touch the chain state and a refused one leaves the table as it was; top-level
   calls never touch the table; queries change nothing *)
Lemma run_hop_frame re h t s :
  match h with
  | HTop _ _ => fst (snd (run_hop re h (t, s))) = t
  | HStore _ _ | HStoreWithId _ _ _ | HDuplicate _ =>
      snd (snd (run_hop re h (t, s))) = s /\
      match fst (run_hop re h (t, s)) with RId (Ok _) => True | _ => fst (snd (run_hop re h (t, s))) = t end
  | _ => snd (run_hop re h (t, s)) = (t, s)
  end.
Proof.
  destruct h as [creator src|creator id src|id|b op|id|c|c|c]; cbn [run_hop fst snd]; try reflexivity.
  - destruct (store_code (re_dck re) t creator src) as [[i t']| |]; cbn; auto.
  - destruct (store_code_with_id (re_dck re) t creator id src) as [[i t']| |]; cbn; auto.
  - destruct (duplicate_code t id) as [[i t']| |]; cbn; auto.
Qed.

(* ---------- history-level corollaries (the forms pinned in Properties/C11.v) ---------- *)
Lemma hist_ids_distinct re hs t s : tinv t ->
  let rs := fst (run_hist re hs (t, s)) in
  let t' := fst (snd (run_hist re hs (t, s))) in
  NoDup (ids t') /\ ~ In 0 (ids t') /\ NoDup (returned_ids rs) /\
  (forall i, In i (returned_ids rs) -> 0 < i /\ ~ In i (ids t) /\ In i (ids t')).
Proof.
  intros Hi. pose proof (run_hist_inv re hs t s Hi) as H. cbn zeta in *.
  destruct H as [Hi' [_ [_ [Hnd Hret]]]]. split; [apply tsorted_nodup; apply Hi'|].
  split; [|split; [exact Hnd|exact Hret]].
  intros H0. apply (tinv_ids_pos _ _ Hi') in H0. lia.
Qed.

(* every id that was in the table before, and every id a store / duplicate call returned on the way, passes all
   four code-id checks at the end of the history (and, the statement being about an arbitrary history, at
   every point after it was stored), with the very code it was stored with *)
Lemma hist_stored_usable re hs t s id : tinv t ->
  let rs := fst (run_hist re hs (t, s)) in
  let t' := fst (snd (run_hist re hs (t, s))) in
  In id (ids t) \/ In id (returned_ids rs) ->
  In id (ids t') /\ 0 < id /\ (forall c, find_code id t = Some c -> find_code id t' = Some c).
Proof.
  intros Hi. pose proof (run_hist_inv re hs t s Hi) as H. cbn zeta in *.
  destruct H as [Hi' [Hext [_ [_ Hret]]]]. intros [Hin|Hin].
  - assert (Hin' := table_ext_ids _ _ _ Hext Hin). split; [exact Hin'|]. split; [eapply tinv_ids_pos; eauto|].
    intros c Hc. apply Hext. exact Hc.
  - destruct (Hret _ Hin) as [H1 [H2 H3]]. split; [exact H3|]. split; [exact H1|].
    intros c Hc. exfalso. apply H2. eapply find_in; eauto.
Qed.

Lemma hist_contracts_persist re hs t s : tinv t -> reg_ext s (snd (snd (run_hist re hs (t, s)))).
Proof. intros Hi. pose proof (run_hist_inv re hs t s Hi) as H. cbn zeta in H. apply H. Qed.

(* a rolled-back instantiation does not consume an instance number: whatever a failed sub-message did (it may
   have registered any number of contracts), the dispatcher continues from the state s in which it dispatched,
   and the classic address of the next instantiation is the one for the number of contracts in s;
   a committed registration moves the count by exactly one *)
Lemma classic_counts_committed e d id payload ro m on_ok on_err s :
  outc (run_msg e d m s) = Err ->
  outc (run_sub e d (Sub id payload ro m on_ok on_err) s) =
    (if wants_err ro then outc (reply_run e d id payload RRErr on_err s) else Err) /\
  (forall code_id creator,
     new_address e s code_id creator None = find_classic (code_id, N.of_nat (length (reg s))) (classic_book e)) /\
  (forall code_id creator admin label salt a s1,
     register_contract e s code_id creator admin label salt = Ok (a, s1) -> length (reg s1) = S (length (reg s))).
Proof.
  intros H. split; [apply failed_sub_unchanged; exact H|]. split; [reflexivity|].
  intros code_id creator admin label salt a s1 Hr. apply register_records in Hr. apply Hr.
Qed.

Lemma tmax_spec t : (forall i, In i (ids t) -> i <= tmax t) /\ (t <> [] -> In (tmax t) (ids t)) /\ (t = [] -> tmax t = 0).
Proof. split; [apply tmax_ge|]. split; [apply tmax_in|]. intros ->. reflexivity. Qed.
