(* Chk16W.v — clause 24 of the oracle (after a slash the displayed delegation is at most the scaled next
   whole value, and EXACTLY floor((1-p) * displayed) while the oracle believes the validator's shares whole)
   on the model's own run.  The oracle's belief (o_frac) is justified by an invariant of all histories:
   for every validator not marked fractional, all shares are whole tokens and the validator's total equals
   the sum of the shares (no drift).  No pinned theorems here. *)
From Verif Require Import Base OMap Bank Dec Staking StakingInv Chk14 StakingHist Chk16 Chk15 Chk14M Chk16M Chk15H Chk15L.
From Coq Require Import Permutation.
Local Open Scope N_scope.

(* ---------- sums over staker lists ---------- *)

Fixpoint lsum (f : N -> N) (l : list N) : N := match l with [] => 0 | x :: r => f x + lsum f r end.

Lemma lsum_perm f l l' : Permutation l l' -> lsum f l = lsum f l'.
Proof. induction 1; cbn [lsum]; lia. Qed.
Lemma lsum_ext f g l : (forall x, In x l -> f x = g x) -> lsum f l = lsum g l.
Proof.
  induction l as [|x l IH]; intros H; [reflexivity|]. cbn [lsum]. rewrite (H x (or_introl eq_refl)), IH; [reflexivity|].
  intros y Hy. apply H. right. exact Hy.
Qed.
Lemma lsum_members f l l' : NoDup l -> NoDup l' -> (forall x, In x l <-> In x l') -> lsum f l = lsum f l'.
Proof. intros H1 H2 H. apply lsum_perm, NoDup_Permutation; assumption. Qed.
Lemma lsum_le f l d : In d l -> f d <= lsum f l.
Proof. induction l as [|x l IH]; intros H; [destruct H|]. cbn [lsum]. destruct H as [->|H]; [lia|specialize (IH H); lia]. Qed.
Lemma lsum_scale f c l : lsum (fun x => f x * c) l = lsum f l * c.
Proof. induction l as [|x l IH]; cbn [lsum]; [reflexivity|]. rewrite IH. lia. Qed.
Lemma lsum_split d f l : NoDup l -> lsum f l = lsum f (stakers_remove d l) + (if mem d l then f d else 0).
Proof.
  induction l as [|x l IH]; intros H; [reflexivity|]. inversion H as [|? ? Hni Hnd]; subst.
  unfold stakers_remove, mem. cbn [filter existsb lsum]. fold (stakers_remove d l). fold (mem d l).
  rewrite (IH Hnd). rewrite (N.eqb_sym d x). destruct (x =? d) eqn:E; cbn [negb orb lsum].
  - apply N.eqb_eq in E. subst x.
    replace (mem d l) with false by (symmetry; destruct (mem d l) eqn:M; [apply mem_In in M; contradiction|reflexivity]). lia.
  - lia.
Qed.
Lemma lsum_zero f l : (forall x, In x l -> f x = 0) -> lsum f l = 0.
Proof. induction l as [|x l IH]; intros H; [reflexivity|]. cbn [lsum]. rewrite (H x (or_introl eq_refl)), IH; [reflexivity|]. intros y Hy. apply H. right. exact Hy. Qed.

(* ---------- "whole and drift-free" ---------- *)

Definition sumst (s : sstate) (v : N) : N :=
  match get_vi v s with Some vi => lsum (fun d => stake_of s d v) (vi_stakers vi) | None => 0 end.
Definition whole_ok (s : sstate) (v : N) : Prop :=
  (forall d, stake_of s d v = disp s d v * D18) /\ vstake s v * D18 = sumst s v.

Lemma whole_same s s' v : (forall d, get_stake d v s' = get_stake d v s) -> get_vi v s' = get_vi v s ->
  whole_ok s v -> whole_ok s' v.
Proof.
  intros Hg Hv [W1 W2]. assert (Es : forall d, stake_of s' d v = stake_of s d v) by (intros d; unfold stake_of; rewrite Hg; reflexivity).
  split.
  - intros d. unfold disp. rewrite Es. apply W1.
  - unfold vstake, sumst in *. rewrite Hv. destruct (get_vi v s); [|exact W2]. rewrite (lsum_ext _ (fun d => stake_of s d v)); [exact W2|].
    intros d _. apply Es.
Qed.

Lemma whole_disp_le s v : stakers_ok s -> get_vi v s <> None -> whole_ok s v -> forall d, disp s d v <= vstake s v.
Proof.
  intros Hs Hv [W1 W2] d. unfold sumst, vstake in *. destruct (get_vi v s) as [vi|] eqn:Gv; [|contradiction].
  destruct (Hs v vi Gv) as [_ Hin]. destruct (get_stake d v s) as [sh|] eqn:G.
  - assert (Hd : In d (vi_stakers vi)) by (apply Hin; congruence).
    pose proof (lsum_le (fun d => stake_of s d v) _ d Hd) as L. cbn beta in L. rewrite (W1 d) in L. unfold D18 in *. nia.
  - unfold disp, stake_of. rewrite G. cbn. apply N.le_0_l.
Qed.

Lemma mem_false_notin d l : mem d l = false -> ~ In d l.
Proof. intros H C. apply mem_In in C. congruence. Qed.

Lemma update_stake_whole P now s d v a sub s' v' :
  stakers_ok s -> update_stake P now s d v a sub = SOk s' -> whole_ok s v' -> whole_ok s' v'.
Proof.
  intros Hs H Wh.
  apply update_stake_spec in H as (vi & comm & st' & ns & Gv & Gc & _ & _ & _ & Sm & So & Vo & Vv & Hin & Hnd & Ens & Hov & Hns & _).
  destruct (N.eq_dec v' v) as [->|Hn].
  2:{ apply (whole_same s s' v'); [intros d'; apply So, Hn|apply Vo, Hn|exact Wh]. }
  destruct Wh as [W1 W2]. destruct (Hs v vi Gv) as [Hnl Hil]. specialize (Hnd Hnl).
  apply new_stake_of in Hns.
  assert (Fo : forall x, x <> d -> stake_of s' x v = stake_of s x v).
  { intros x Hx. apply (stake_of_other s s' d v Sm). congruence. }
  pose proof (W1 d) as Wd. set (dd := disp s d v) in *.
  assert (Hle : sub = true -> a <= dd /\ a <= vi_stake vi).
  { intros ->. destruct Hov as (H1 & H2 & _). rewrite Wd in H1. split; [unfold D18 in *; nia|exact H2]. }
  assert (Ens' : ns = (if sub then dd - a else dd + a) * D18).
  { rewrite Ens, Wd. destruct sub; [destruct (Hle eq_refl) as [L _]; nia|lia]. }
  split.
  - intros x. destruct (N.eq_dec x d) as [->|Hx].
    + rewrite Hns, Ens'. unfold disp. rewrite Hns, Ens', floor_whole. reflexivity.
    + rewrite (Fo x Hx). unfold disp. rewrite (Fo x Hx). apply W1.
  - unfold vstake, sumst in *. rewrite Vv. rewrite Gv in W2. cbn [vi_stake vi_stakers].
    set (f := fun x => stake_of s x v) in *. set (f' := fun x => stake_of s' x v).
    assert (E1 : lsum f (vi_stakers vi) = lsum f (stakers_remove d (vi_stakers vi)) + f d).
    { rewrite (lsum_split d f _ Hnl). destruct (mem d (vi_stakers vi)) eqn:M; [reflexivity|].
      apply mem_false_notin in M. assert (G : get_stake d v s = None).
      { destruct (get_stake d v s) eqn:G; [|reflexivity]. exfalso. apply M, Hil. congruence. }
      unfold f, stake_of. rewrite G. reflexivity. }
    assert (E2 : lsum f' st' = lsum f' (stakers_remove d st') + f' d).
    { rewrite (lsum_split d f' _ Hnd). destruct (mem d st') eqn:M; [reflexivity|].
      apply mem_false_notin in M. assert (G : get_stake d v s' = None).
      { destruct (get_stake d v s') eqn:G; [|reflexivity]. exfalso. apply M, Hin. right. split; [reflexivity|congruence]. }
      unfold f', stake_of. rewrite G. reflexivity. }
    assert (E3 : lsum f' (stakers_remove d st') = lsum f (stakers_remove d (vi_stakers vi))).
    { rewrite (lsum_members f' (stakers_remove d st') (stakers_remove d (vi_stakers vi))).
      - apply lsum_ext. intros x Hx. apply stakers_remove_In in Hx as [Hx _]. apply Fo, Hx.
      - apply stakers_remove_NoDup, Hnd.
      - apply stakers_remove_NoDup, Hnl.
      - intros x. rewrite !stakers_remove_In, Hin. split.
        + intros [Hx [[_ H1]|[H1 _]]]; [split; assumption|contradiction].
        + intros [Hx H1]. split; [exact Hx|left; split; assumption]. }
    assert (Fd' : f' d = ns) by exact Hns. assert (Fd : f d = dd * D18) by exact Wd.
    rewrite Fd' in E2. rewrite Fd in E1. rewrite E2, E3. destruct sub.
    + destruct (Hle eq_refl) as [L1 L2]. nia.
    + nia.
Qed.

Lemma lsum_mod f l : (forall x, In x l -> f x mod D18 = 0) -> lsum f l mod D18 = 0.
Proof.
  induction l as [|x l IH]; intros H; [reflexivity|]. cbn [lsum]. rewrite N.add_mod by apply D18_neq.
  rewrite (H x (or_introl eq_refl)), IH by (intros y Hy; apply H; right; exact Hy). reflexivity.
Qed.

Lemma div_exact_r x : x mod D18 = 0 -> x = x / D18 * D18.
Proof. intros H. rewrite N.mul_comm. apply (proj2 (N.div_exact x D18 D18_neq)), H. Qed.

Lemma slash_whole P now s v p s' v' :
  stakers_ok s -> exec_slash P now s v p = SOk s' -> whole_ok s v' ->
  (v' = v -> forall d, (disp s d v * (D18 - p)) mod D18 = 0) -> whole_ok s' v'.
Proof.
  intros Hs H Wh Hdiv.
  pose proof (slash_facts _ _ _ _ _ _ Hs H) as (Lp & Kv & _ & _ & _ & Vo & So & Vt & St & _).
  destruct (N.eq_dec v' v) as [->|Hn].
  2:{ apply (whole_same s s' v'); [intros d'; apply So, Hn|apply Vo, Hn|exact Wh]. }
  specialize (Hdiv eq_refl). destruct Wh as [W1 W2].
  apply slash_spec in H as (s1 & vi & Hu & Gv & _ & _ & H); [|exact Hs]. cbn zeta in H.
  destruct H as (Ev & _ & _ & _ & _ & _ & Vv & _).
  apply update_rewards_spec in Hu as (vi0 & comm & Gv0 & _ & _ & _ & Vv1). rewrite Vv1 in Gv. injection Gv as <-.
  cbn [vi_stake vi_stakers vi_last] in *. fold (new_total s v p) in Vv. unfold new_total in *. rewrite <- Ev in *.
  set (rem := D18 - p) in *. set (nv := vi_stake vi0 * rem / D18) in *.
  assert (Estake : forall d, stake_of s d v * rem / D18 = disp s d v * rem).
  { intros d. rewrite (W1 d). replace (disp s d v * D18 * rem) with (disp s d v * rem * D18) by lia. apply N.div_mul, D18_neq. }
  destruct (nv =? 0) eqn:Z.
  - split.
    + intros d. unfold disp. rewrite St. reflexivity.
    + unfold vstake, sumst. rewrite Vv. cbn [vi_stake vi_stakers lsum]. apply N.eqb_eq in Z. rewrite Z. reflexivity.
  - split.
    + intros d. unfold disp. rewrite St, Estake. unfold to_uint_floor. apply div_exact_r, Hdiv.
    + unfold vstake, sumst in *. rewrite Vv. rewrite Gv0 in W2. cbn [vi_stake vi_stakers].
      rewrite (lsum_ext _ (fun d => disp s d v * rem)) by (intros d _; rewrite St, Estake; reflexivity).
      rewrite lsum_scale.
      assert (Ew : vi_stake vi0 = lsum (fun d => disp s d v) (vi_stakers vi0)).
      { rewrite (lsum_ext _ (fun d => disp s d v * D18)) in W2 by (intros d _; apply W1). rewrite lsum_scale in W2.
        apply (N.mul_cancel_r _ _ D18 D18_neq), W2. }
      assert (Md : (vi_stake vi0 * rem) mod D18 = 0).
      { rewrite Ew, <- lsum_scale. apply lsum_mod. intros d _. apply Hdiv. }
      unfold nv. rewrite <- Ew. symmetry. apply div_exact_r, Md.
Qed.

Lemma whole_same' s s' v : (forall d, stake_of s' d v = stake_of s d v) ->
  option_map (fun vi => (vi_stakers vi, vi_stake vi)) (get_vi v s') = option_map (fun vi => (vi_stakers vi, vi_stake vi)) (get_vi v s) ->
  whole_ok s v -> whole_ok s' v.
Proof.
  intros Es Hv [W1 W2]. split.
  - intros d. unfold disp. rewrite Es. apply W1.
  - unfold vstake, sumst in *. destruct (get_vi v s') as [vi'|], (get_vi v s) as [vi|]; cbn [option_map] in Hv; try discriminate; [|exact W2].
    injection Hv as E1 E2. rewrite E1, E2. rewrite (lsum_ext _ (fun d => stake_of s d v)); [exact W2|]. intros d _. apply Es.
Qed.

Lemma withdraw_whole P now s d v s' v' : bank_wf (s_bank s) -> exec_withdraw P now s d v = SOk s' -> whole_ok s v' -> whole_ok s' v'.
Proof.
  intros Hw H Wh. apply withdraw_lemma in H as (s1 & sh & Hu & _ & H); [|exact Hw]. cbn zeta in H.
  destruct H as (_ & _ & _ & _ & St & Vi & _). apply update_rewards_spec in Hu as (vi & comm & Gv & _ & _ & Vo & Vv).
  apply (whole_same' s s' v'); [intros d'; apply St| |exact Wh]. rewrite Vi.
  destruct (N.eq_dec v' v) as [->|Hn]; [rewrite Vv, Gv; reflexivity|rewrite (Vo v' Hn); reflexivity].
Qed.

Lemma pay_entry_whole s u rest s' v' : stakers_ok s -> pay_entry s u rest = SOk s' -> whole_ok s v' -> whole_ok s' v'.
Proof.
  intros Hs H Wh. apply pay_entry_shape in H. cbn zeta in H. destruct H as (s1 & H1 & H2).
  assert (A : whole_ok s1 v').
  { destruct H1 as [->|[(Hn & Hz & [(vi & Gv & ->)|(Gv & ->)])|(Hn & ->)]]; [exact Wh| | |].
    - destruct (N.eq_dec v' (u_val u)) as [->|Hv].
      + destruct Wh as [W1 W2]. pose proof (W1 (u_del u)) as Wd. rewrite Hz in Wd. cbn in Wd.
        assert (Fo : forall x, stake_of (put_vi (u_val u) (mkVi (stakers_remove (u_del u) (vi_stakers vi)) (vi_stake vi) (vi_last vi))
                                                (del_stake (u_del u) (u_val u) s)) x (u_val u) = stake_of s x (u_val u)).
        { intros x. unfold stake_of. rewrite get_stake_put_vi, get_stake_del_stake. destruct (peqb (x, u_val u) (u_del u, u_val u)) eqn:E; [|reflexivity].
          apply peqb_spec in E. injection E as ->. fold (stake_of s (u_del u) (u_val u)). rewrite Wd. reflexivity. }
        split.
        * intros x. unfold disp. rewrite Fo. apply W1.
        * unfold vstake, sumst in *. rewrite get_vi_put_vi, N.eqb_refl. rewrite Gv in W2. cbn [vi_stake vi_stakers].
          rewrite (lsum_ext _ (fun x => stake_of s x (u_val u))) by (intros x _; apply Fo).
          destruct (Hs _ _ Gv) as [Hnd _]. rewrite (lsum_split (u_del u) _ _ Hnd) in W2. rewrite Wd in W2.
          destruct (mem (u_del u) (vi_stakers vi)); lia.
      + apply (whole_same s _ v'); [|rewrite get_vi_put_vi, get_vi_del_stake; apply N.eqb_neq in Hv; rewrite Hv; reflexivity|exact Wh].
        intros x. rewrite get_stake_put_vi, get_stake_del_stake, peqb_neq_v by exact Hv. reflexivity.
    - apply (whole_same' s _ v'); [|reflexivity|exact Wh]. intros x. unfold stake_of. rewrite get_stake_del_stake.
      destruct (peqb (x, v') (u_del u, u_val u)) eqn:E; [|reflexivity]. apply peqb_spec in E. injection E as -> ->.
      destruct Wh as [W1 _]. pose proof (W1 (u_del u)) as Wd. rewrite Hz in Wd. cbn in Wd. fold (stake_of s (u_del u) (u_val u)). rewrite Wd. reflexivity.
    - apply (whole_same s _ v'); [|reflexivity|exact Wh]. intros x. rewrite get_stake_del_stake.
      destruct (peqb (x, v') (u_del u, u_val u)) eqn:E; [|reflexivity]. apply peqb_spec in E. injection E as -> ->. symmetry. exact Hn. }
  destruct H2 as [(_ & ->)|(_ & b & _ & ->)]; [exact A|]. apply (whole_same s1 _ v'); [intros; reflexivity|reflexivity|exact A].
Qed.

Lemma process_queue_from_whole now v' : forall q s s', stakers_ok s -> process_queue_from now q s = SOk s' -> whole_ok s v' -> whole_ok s' v'.
Proof.
  induction q as [|u q IH]; intros s s' Hs H Wh; cbn [process_queue_from] in H.
  - injection H as <-. apply (whole_same s _ v'); [intros; reflexivity|reflexivity|exact Wh].
  - destruct (u_at u <=? now).
    + inv_bind H as s1 H1. pose proof (pay_entry_keeps _ _ _ _ H1) as (_ & K2 & _).
      apply (IH s1 s' (K2 Hs) H). eapply pay_entry_whole; eassumption.
    + injection H as <-. apply (whole_same s _ v'); [intros; reflexivity|reflexivity|exact Wh].
Qed.

(* ---------- entries belong to observed delegators ---------- *)

Definition dom_ok (su : setup) (s : sstate) : Prop := forall d v, get_stake d v s <> None -> In d (su_dels su).

Lemma update_stake_dom su P now s d v a sub s' : In d (su_dels su) -> update_stake P now s d v a sub = SOk s' -> dom_ok su s -> dom_ok su s'.
Proof.
  intros Hd H Dm d' v' G. destruct (peqb (d', v') (d, v)) eqn:E.
  - apply peqb_spec in E. injection E as -> _. exact Hd.
  - apply update_stake_spec in H as (vi & comm & st' & ns & _ & _ & _ & _ & _ & Sm & _).
    assert (Hp : (d', v') <> (d, v)) by (intros C; rewrite C, peqb_refl in E; discriminate).
    specialize (Sm d' v' Hp). apply (Dm d' v'). destruct (get_stake d' v' s'); [|contradiction]. destruct (get_stake d' v' s); discriminate.
Qed.

Lemma step_dom su w o w' : scoped su o -> winv su w -> step su w o = SOk w' -> dom_ok su (w_st w) -> dom_ok su (w_st w').
Proof.
  intros Hsc I H Dm. destruct o as [d0 v0 a b|d0 v0 a b|d0 v1 v2 a b|d0 v0|d0 wd|v0 p|dt]; cbn [step scoped] in *.
  - inv_bind H as s' X. injection H as <-. cbn [w_st]. unfold exec_delegate in X.
    destruct (a =? 0); [discriminate|]. destruct (negb b); [discriminate|]. inv_bind X as s1 U. inv_bind X as b1 B. injection X as <-.
    apply (update_stake_dom su _ _ _ _ _ _ _ _ Hsc U Dm).
  - inv_bind H as s' X. injection H as <-. cbn [w_st]. unfold exec_undelegate in X.
    destruct (negb b); [discriminate|]. destruct (a =? 0); [discriminate|]. inv_bind X as s1 U.
    destruct (U64 <=? _); [discriminate|]. destruct (U64 <=? _); [discriminate|]. injection X as <-.
    apply (update_stake_dom su _ _ _ _ _ _ _ _ Hsc U Dm).
  - inv_bind H as s' X. injection H as <-. cbn [w_st]. unfold exec_redelegate in X. destruct (negb b); [discriminate|].
    inv_bind X as sm U. apply (update_stake_dom su _ _ _ _ _ _ _ _ Hsc X). apply (update_stake_dom su _ _ _ _ _ _ _ _ Hsc U Dm).
  - inv_bind H as s' X. injection H as <-. cbn [w_st].
    apply withdraw_lemma in X as (s1 & sh & Hu & G & X); [|apply (inv_bank _ _ _ I)]. cbn zeta in X.
    destruct X as (_ & _ & So & Sv & _). apply update_rewards_spec in Hu as (_ & _ & _ & _ & SB & _).
    pose proof (same_but_rewards_dom _ _ _ SB) as D1. intros d v Gd. apply (Dm d v). rewrite <- D1.
    destruct (peqb (d, v) (d0, v0)) eqn:E.
    + apply peqb_spec in E. injection E as -> ->. congruence.
    + rewrite <- (So d v); [exact Gd|]. intros C. rewrite C, peqb_refl in E. discriminate.
  - inv_bind H as s' X. injection H as <-. cbn [w_st]. unfold exec_set_withdraw in X. destruct wd as [w1|]; [|discriminate].
    destruct (d0 =? w1); injection X as <-; exact Dm.
  - inv_bind H as s' X. injection H as <-. cbn [w_st].
    apply slash_facts in X as (_ & _ & _ & _ & _ & _ & So & _ & _ & Dmn); [|apply (inv_stakers _ _ _ I)].
    intros d v Gd. apply (Dm d v). destruct (N.eq_dec v v0) as [->|Hn].
    + intros C. apply Gd, Dmn. right. exact C.
    + rewrite <- (So d v Hn). exact Gd.
  - destruct (U64 <=? w_now w + dt); [discriminate|]. inv_bind H as s' X. injection H as <-. cbn [w_st].
    apply process_queue_from_keep in X as [A1 _]. intros d v Gd. apply (Dm d v). rewrite <- (A1 d v Gd). exact Gd.
Qed.

(* ---------- the oracle's belief o_frac is justified ---------- *)

Definition wh (os : ost) (w : world) : Prop := forall v, mem v (o_frac os) = false -> whole_ok (w_st w) v.

Lemma ostep_frac su os B o A :
  o_frac (snd (ostep su os B o OOk A)) =
  match o with
  | Slash v p => if stays_whole su B v p then o_frac os else if mem v (o_frac os) then o_frac os else v :: o_frac os
  | _ => o_frac os
  end.
Proof. destruct o; reflexivity. Qed.

Lemma stays_whole_all su w B v p : views su w B -> dom_ok su (w_st w) -> known_val su v = true ->
  stays_whole su B v p = true -> forall d, (disp (w_st w) d v * (D18 - p)) mod D18 = 0.
Proof.
  intros VB Dm Kv H d. destruct (in_dec N.eq_dec d (su_dels su)) as [Hd|Hd].
  - assert (Hi : In (d, v) (pairs su)) by (apply in_pairs; split; [exact Hd|apply known_val_In, Kv]).
    unfold stays_whole in H. rewrite all_pairs_spec in H. specialize (H d v Hi). unfold of_v in H. rewrite N.eqb_refl in H. cbn [negb orb] in H.
    rewrite (view_amt _ _ _ _ _ VB Hi) in H. apply N.eqb_eq, H.
  - assert (G : get_stake d v (w_st w) = None).
    { destruct (get_stake d v (w_st w)) eqn:G; [|reflexivity]. exfalso. apply Hd, (Dm d v). congruence. }
    unfold disp, stake_of. rewrite G. reflexivity.
Qed.

Lemma wh_step su os w B o w' A :
  scoped su o -> winv su w -> views su w B -> dom_ok su (w_st w) -> step su w o = SOk w' -> wh os w ->
  wh (snd (ostep su os B o OOk A)) w'.
Proof.
  intros Hsc I VB Dm H Wh v Hv. rewrite ostep_frac in Hv. pose proof (inv_stakers _ _ _ I) as Hs.
  destruct o as [d0 v0 a b|d0 v0 a b|d0 v1 v2 a b|d0 v0|d0 wd|v0 p|dt]; cbn [step] in H.
  - specialize (Wh v Hv). inv_bind H as s' X. injection H as <-. cbn [w_st]. unfold exec_delegate in X.
    destruct (a =? 0); [discriminate|]. destruct (negb b); [discriminate|]. inv_bind X as s1 U. inv_bind X as b1 Bk. injection X as <-.
    apply (whole_same s1 _ v); [intros; reflexivity|reflexivity|]. apply (update_stake_whole _ _ _ _ _ _ _ _ v Hs U Wh).
  - specialize (Wh v Hv). inv_bind H as s' X. injection H as <-. cbn [w_st]. unfold exec_undelegate in X.
    destruct (negb b); [discriminate|]. destruct (a =? 0); [discriminate|]. inv_bind X as s1 U.
    destruct (U64 <=? _); [discriminate|]. destruct (U64 <=? _); [discriminate|]. injection X as <-.
    apply (whole_same s1 _ v); [intros; reflexivity|reflexivity|]. apply (update_stake_whole _ _ _ _ _ _ _ _ v Hs U Wh).
  - specialize (Wh v Hv). inv_bind H as s' X. injection H as <-. cbn [w_st]. unfold exec_redelegate in X. destruct (negb b); [discriminate|].
    inv_bind X as sm U. pose proof (update_stake_stakers_ok _ _ _ _ _ _ _ _ Hs U) as Hsm.
    apply (update_stake_whole _ _ _ _ _ _ _ _ v Hsm X). apply (update_stake_whole _ _ _ _ _ _ _ _ v Hs U Wh).
  - specialize (Wh v Hv). inv_bind H as s' X. injection H as <-. cbn [w_st]. eapply withdraw_whole; [apply (inv_bank _ _ _ I)|eassumption|exact Wh].
  - specialize (Wh v Hv). inv_bind H as s' X. injection H as <-. cbn [w_st]. unfold exec_set_withdraw in X. destruct wd as [w1|]; [|discriminate].
    destruct (d0 =? w1); injection X as <-; (apply (whole_same (w_st w) _ v); [intros; reflexivity|reflexivity|exact Wh]).
  - inv_bind H as s' X. injection H as <-. cbn [w_st].
    assert (Kv : known_val su v0 = true).
    { apply slash_facts in X as (_ & Kv & _); [|exact Hs]. apply known_val_get, Kv. }
    destruct (stays_whole su B v0 p) eqn:Sw.
    + apply (slash_whole _ _ _ _ _ _ v Hs X (Wh v Hv)). intros ->. apply (stays_whole_all su w B v0 p VB Dm Kv Sw).
    + destruct (mem v0 (o_frac os)) eqn:Mf.
      * apply (slash_whole _ _ _ _ _ _ v Hs X (Wh v Hv)). intros ->. congruence.
      * unfold mem in Hv. cbn [existsb] in Hv. apply orb_false_iff in Hv as [Hv1 Hv2]. fold (mem v (o_frac os)) in Hv2.
        apply (slash_whole _ _ _ _ _ _ v Hs X (Wh v Hv2)). intros ->. rewrite N.eqb_refl in Hv1. discriminate.
  - specialize (Wh v Hv). destruct (U64 <=? w_now w + dt); [discriminate|]. inv_bind H as s' X. injection H as <-. cbn [w_st].
    unfold process_queue in X. eapply process_queue_from_whole; eassumption.
Qed.

(* ---------- clause 24 at a successful slash ---------- *)

Lemma slash_upper_model su os w B v p w' A :
  winv su w -> views su w B -> views su w' A -> step su w (Slash v p) = SOk w' -> wh os w ->
  cf [24] (slash_upper su B A os v p) = [].
Proof.
  intros I VB VA H Wh. cbn [step] in H. inv_bind H as s' X. injection H as <-.
  pose proof (inv_stakers _ _ _ I) as Hs.
  unfold slash_upper. apply cf_chk_pairs_true. intros d v' Hi. unfold of_v. destruct (v' =? v) eqn:E; [|reflexivity].
  apply N.eqb_eq in E. subst v'. cbn [negb orb]. rewrite (view_amt _ _ _ _ _ VA Hi), (view_amt _ _ _ _ _ VB Hi). cbn [w_st].
  destruct (N.eq_dec (new_total (w_st w) v p) 0) as [Z|Z].
  - destruct (slash_total_removes_lemma _ _ _ _ _ _ Hs X Z) as (_ & R). destruct (R d) as [_ ->].
    destruct (mem v (o_frac os)) eqn:Mf; [apply N.leb_le, N.le_0_l|].
    assert (Gv : get_vi v (w_st w) <> None).
    { pose proof X as X'. apply slash_spec in X' as (s1 & vi & Hu & _); [|exact Hs].
      apply update_rewards_spec in Hu as (vi0 & comm & Gv0 & _). congruence. }
    pose proof (whole_disp_le _ _ Hs Gv (Wh v Mf) d) as Le.
    apply slash_facts in X as (Lp & _); [|exact Hs].
    pose proof (scale_mono _ _ (D18 - p) Le) as M. unfold new_total in Z. rewrite Z in M.
    apply N.eqb_eq. symmetry. apply N.le_0_r. exact M.
  - destruct (mem v (o_frac os)) eqn:Mf.
    + apply N.leb_le. apply (slash_display_bounds_lemma _ _ _ _ _ _ Hs X Z d).
    + destruct (Wh v Mf) as [W1 _]. apply N.eqb_eq.
      apply (slash_whole_exact_lemma _ _ _ _ _ _ Hs X Z d (disp (w_st w) d v) (W1 d)).
Qed.

(* ---------- clause 24 over all histories; the full C16 clause set ---------- *)

Lemma ok24_step su os w B o w' A :
  winv su w -> views su w B -> views su w' A -> step su w o = SOk w' -> wh os w ->
  cf [24] (fst (ostep su os B o OOk A)) = [].
Proof.
  intros I VB VA H Wh. destruct o as [d v a b|d v a b|d v1 v2 a b|d v|d wd|v p|dt]; cbn [ostep fst].
  - rewrite !cf_app, cf_reward_bounds by reflexivity. rewrite !cf_chk_out by reflexivity. reflexivity.
  - rewrite !cf_app, cf_reward_bounds by reflexivity. rewrite !cf_chk_out by reflexivity. reflexivity.
  - rewrite !cf_app, cf_reward_bounds by reflexivity. rewrite !cf_chk_out by reflexivity. reflexivity.
  - unfold withdraw_clauses. rewrite !cf_app, cf_reward_bounds by reflexivity.
    rewrite cf_chk_pairs_out by reflexivity. rewrite !cf_chk_out by reflexivity. reflexivity.
  - rewrite !cf_app, cf_reward_bounds by reflexivity. rewrite !cf_chk_out by reflexivity. reflexivity.
  - unfold slash_clauses. rewrite !cf_app, cf_reward_bounds by reflexivity.
    rewrite (slash_upper_model su os w B v p w' A I VB VA H Wh).
    unfold slash_never_increases, slash_frame, slash_lower, slash_rewards_kept, slash_total_removes.
    rewrite !cf_app, !cf_chk_pairs_out by reflexivity. rewrite !cf_chk_out by reflexivity. reflexivity.
  - rewrite !cf_app, cf_reward_bounds by reflexivity. rewrite !cf_chk_out by reflexivity. reflexivity.
Qed.

Lemma oracle_from_24 su : forall ops os w B k,
  setup_ok su -> Forall (scoped su) ops -> winv su w -> osim su os w -> views su w B -> wh os w -> dom_ok su (w_st w) ->
  clean (model_run su w B ops) ->
  filter (in_set [24]) (oracle_from su os B ops (map fst (model_run su w B ops)) k) = [].
Proof.
  induction ops as [|o ops IH]; intros os w B k Hsu Hsc I Sim VB Wh Dm Hc; [reflexivity|].
  inversion Hsc as [|? ? Ho Hsc']; subst. cbn [model_run] in *.
  destruct (step su w o) as [w'| | |] eqn:S.
  - destruct (model_snap su w') as [A| | |] eqn:MA;
      try (inversion Hc as [|? ? Hx _]; subst; cbn in Hx; destruct Hx; discriminate).
    inversion Hc as [|? ? _ Hc']; subst. cbn [map fst oracle_from].
    pose proof (model_snap_views _ _ _ MA) as VA.
    destruct (step_ok_model su os w B o w' A Hsu Ho I Sim VB S VA) as [_ Sim'].
    pose proof (ok24_step su os w B o w' A I VB VA S Wh) as F.
    pose proof (wh_step su os w B o w' A Ho I VB Dm S Wh) as Wh'.
    pose proof (step_dom su w o w' Ho I S Dm) as Dm'.
    destruct (ostep su os B o OOk A) as [fs os'] eqn:E. cbn [fst snd] in *.
    rewrite filter_app, filter_in_set_cf, F. cbn [map app].
    apply IH; try assumption. eapply step_inv; eassumption.
  - destruct (err_16 su os w B o I S) as (Ha & _ & Eo). rewrite Ha in *.
    inversion Hc as [|? ? _ Hc']; subst. cbn [map fst oracle_from].
    assert (F : cf [24] (fst (ostep su os B o OErr B)) = []).
    { cbn [ostep fst]. rewrite !cf_app. rewrite !(cf_chk_out [24]) by reflexivity. cbn [app].
      destruct o; try reflexivity. apply cf_chk_out. reflexivity. }
    destruct (ostep su os B o OErr B) as [fs os'] eqn:E. cbn [fst snd] in F, Eo. subst os'.
    rewrite filter_app, filter_in_set_cf, F. cbn [map app]. apply IH; assumption.
  - inversion Hc as [|? ? Hx _]; subst. cbn in Hx. destruct Hx; discriminate.
  - inversion Hc as [|? ? Hx _]; subst. cbn in Hx. destruct Hx; discriminate.
Qed.

Lemma wh0 su w0 : init_world su = SOk w0 -> wh (ost0 su) w0 /\ dom_ok su (w_st w0).
Proof.
  intros H0. destruct (init_world_fresh su w0 H0) as (_ & Es & _ & _ & Ev).
  assert (G : forall d v, get_stake d v (w_st w0) = None) by (intros d v; unfold get_stake; rewrite Es; reflexivity).
  split.
  - intros v _. split.
    + intros d. unfold disp, stake_of. rewrite G. reflexivity.
    + unfold vstake, sumst. destruct (get_vi v (w_st w0)) as [vi|] eqn:Gv; [|reflexivity]. rewrite (Ev v vi Gv). reflexivity.
  - intros d v C. exfalso. apply C, G.
Qed.

Lemma model_ok_24_lemma su ops w0 m0 :
  setup_ok su -> Forall (scoped su) ops ->
  init_world su = SOk w0 -> model_snap su w0 = SOk m0 -> clean (model_run su w0 m0 ops) ->
  filter (in_set [24]) (oracle su ops m0 (map fst (model_run su w0 m0 ops))) = [].
Proof.
  intros Hsu Hsc H0 HM Hc. unfold oracle. rewrite filter_app.
  match goal with |- ?a ++ _ = [] => assert (G : a = []) by (destruct (genesis_ok su m0); reflexivity); rewrite G end.
  cbn [app]. destruct (wh0 su w0 H0) as [W D].
  apply oracle_from_24; try assumption.
  - apply init_world_inv, H0.
  - apply osim0; assumption.
  - apply model_snap_views, HM.
Qed.

(* all twelve C16 clauses: the only failures of the model's run are the two known classes *)
Lemma c16_split c : mem c C16_clauses = true -> c = 24 \/ mem c C16m = true.
Proof.
  intros H. destruct (c =? 24) eqn:E; [left; apply N.eqb_eq, E|right].
  unfold mem, C16_clauses, C16m in *. cbn [existsb] in *. rewrite E in H. cbn [orb] in H. exact H.
Qed.

Lemma model_ok_16_full_lemma su ops w0 m0 :
  setup_ok su -> NoDup (acct_ids su) -> Forall (scoped su) ops ->
  init_world su = SOk w0 -> model_snap su w0 = SOk m0 -> clean (model_run su w0 m0 ops) ->
  Forall (known16_somewhere su w0 ops) (filter (in_set C16_clauses) (oracle su ops m0 (map fst (model_run su w0 m0 ops)))).
Proof.
  intros Hsu Hnd Hsc H0 HM Hc.
  pose proof (model_ok_16_lemma su ops w0 m0 Hsu Hnd Hsc H0 HM Hc) as F1.
  pose proof (model_ok_24_lemma su ops w0 m0 Hsu Hsc H0 HM Hc) as F2.
  apply Forall_forall. intros kf Hkf. apply filter_In in Hkf as [Hin Hs]. unfold in_set in Hs.
  destruct (c16_split _ Hs) as [E|E].
  - exfalso. assert (C : In kf (filter (in_set [24]) (oracle su ops m0 (map fst (model_run su w0 m0 ops))))).
    { apply filter_In. split; [exact Hin|]. unfold in_set. rewrite E. reflexivity. }
    rewrite F2 in C. destruct C.
  - rewrite Forall_forall in F1. apply F1. apply filter_In. split; [exact Hin|exact E].
Qed.

(* whole_ok by computation (for the examples) *)
Definition whole_okb (s : sstate) (v : N) : bool :=
  forallb (fun e : (N * N) * shares => negb (snd (fst e) =? v) || (sh_stake (snd e) mod D18 =? 0)) (s_stakes s) &&
  (vstake s v * D18 =? sumst s v).
Lemma fget_In_p {V} k (l : list ((N * N) * V)) c : fget peqb k l = Some c -> In (k, c) l.
Proof.
  induction l as [|[k' c'] l IH]; cbn [fget]; [discriminate|]. destruct (peqb k k') eqn:E.
  - apply peqb_spec in E. subst k'. intros H. injection H as ->. left. reflexivity.
  - intros H. right. apply IH, H.
Qed.
Lemma whole_okb_ok s v : whole_okb s v = true -> whole_ok s v.
Proof.
  unfold whole_okb. intros H. apply andb_true_iff in H as [H1 H2]. split; [|apply N.eqb_eq, H2].
  intros d. unfold disp, stake_of, get_stake. destruct (fget peqb (d, v) (s_stakes s)) as [sh|] eqn:G; [|reflexivity].
  apply fget_In_p in G. rewrite forallb_forall in H1. specialize (H1 _ G). cbn [fst snd] in H1. rewrite N.eqb_refl in H1. cbn [negb orb] in H1.
  unfold to_uint_floor. apply div_exact_r. apply N.eqb_eq, H1.
Qed.
