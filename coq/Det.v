(* Det.v — C19: the simulator is deterministic and instances do not interfere.  Lemmas only.

   WHAT IS PROVED HERE, AND WHAT CANNOT BE.
   The executor model (Exec.v) is a Gallina FUNCTION of (static case data, operation, state).  A Gallina
   function cannot read a clock, a random source or a process-wide static, so "the model is deterministic"
   ([run_deterministic] below) is congruence of equality: it is pinned because the property names it, and
   it says nothing about the Rust code by itself.  The part with content is structural: ALL state an
   operation of one instance reads or writes is the state record of THAT instance (the chain record, the
   code table, the current block) — there is no component shared between instances.  From this alone,
   [instances_independent] follows for EVERY schedule interleaving two histories (and [runN_sides] for
   any number of instances): what an instance returns and stores is what it returns and stores when run
   alone.  That the real `App` behaves like this function — i.e. that the Rust runtime hides no state outside
   `App{router, api, storage, block}` (app.rs:53-69) — is NOT provable about a hand model: a hidden static,
   a `HashMap` iteration order or a clock read would simply be absent from the model.  That half of C19 is
   carried by the relational runs of harness/c19 (same history run alone, after unrelated apps, interleaved
   with other apps, in fresh OS processes, in another thread), whose transcripts are compared IN COQ by
   Chk19.p_c19, and by the advisory source scan Generated.nondet_sources.  The claim is labelled partial. *)
From Verif Require Import Base OMap Text Proto Bank Exec ChkExec.
Local Open Scope N_scope.

(* ====================================================================================================
   1. Machines given as functions: histories, two-instance schedules, n-instance schedules
   ==================================================================================================== *)
Section Machine.
  Variables St Op Out : Type.
  Variable step : Op -> St -> Out * St.

  (* the transcript of a history: per operation what it returned and the state it left *)
  Fixpoint run_gen (h : list Op) (s : St) : list (Out * St) :=
    match h with
    | [] => []
    | o :: r => let (x, s') := step o s in (x, s') :: run_gen r s'
    end.

  Fixpoint final_gen (h : list Op) (s : St) : St :=
    match h with [] => s | o :: r => final_gen r (snd (step o s)) end.

  (* two instances and a schedule: [true] = the LEFT instance performs the next operation *)
  Fixpoint run2_gen (sg : list (bool * Op)) (ss : St * St) : list (bool * (Out * St)) :=
    match sg with
    | [] => []
    | (true, o) :: r => let (x, s') := step o (fst ss) in (true, (x, s')) :: run2_gen r (s', snd ss)
    | (false, o) :: r => let (x, s') := step o (snd ss) in (false, (x, s')) :: run2_gen r (fst ss, s')
    end.

  Fixpoint final2_gen (sg : list (bool * Op)) (ss : St * St) : St * St :=
    match sg with
    | [] => ss
    | (true, o) :: r => final2_gen r (snd (step o (fst ss)), snd ss)
    | (false, o) :: r => final2_gen r (fst ss, snd (step o (snd ss)))
    end.

  (* the entries of a tagged list that belong to one side *)
  Definition side {A} (b : bool) (l : list (bool * A)) : list A :=
    map snd (filter (fun x => Bool.eqb (fst x) b) l).

  (* sg is an interleaving of h1 (left) and h2 (right) *)
  Inductive interleave {A} : list A -> list A -> list (bool * A) -> Prop :=
  | il_nil : interleave [] [] []
  | il_left o h1 h2 sg : interleave h1 h2 sg -> interleave (o :: h1) h2 ((true, o) :: sg)
  | il_right o h1 h2 sg : interleave h1 h2 sg -> interleave h1 (o :: h2) ((false, o) :: sg).

  Lemma interleave_sides {A} (h1 h2 : list A) sg : interleave h1 h2 sg -> side true sg = h1 /\ side false sg = h2.
  Proof.
    induction 1 as [|o h1 h2 sg _ [IH1 IH2]|o h1 h2 sg _ [IH1 IH2]]; unfold side in *; cbn; [auto| |];
      rewrite IH1, IH2; auto.
  Qed.

  Lemma sides_interleave {A} (sg : list (bool * A)) : interleave (side true sg) (side false sg) sg.
  Proof.
    induction sg as [|[[|] o] sg IH]; unfold side in *; cbn; [constructor| |]; constructor; exact IH.
  Qed.

  (* every pair of histories has interleavings: e.g. all of h1 first, or strict alternation *)
  Fixpoint alternate {A} (h1 h2 : list A) : list (bool * A) :=
    match h1, h2 with
    | [], _ => map (pair false) h2
    | _, [] => map (pair true) h1
    | a :: r1, b :: r2 => (true, a) :: (false, b) :: alternate r1 r2
    end.
  Lemma interleave_right_only {A} (h2 : list A) : interleave [] h2 (map (pair false) h2).
  Proof. induction h2; cbn; constructor; assumption. Qed.
  Lemma interleave_left_only {A} (h1 : list A) : interleave h1 [] (map (pair true) h1).
  Proof. induction h1; cbn; constructor; assumption. Qed.
  Lemma alternate_interleave {A} (h1 : list A) : forall h2, interleave h1 h2 (alternate h1 h2).
  Proof.
    induction h1 as [|a r1 IH]; intros h2.
    - destruct h2; apply (interleave_right_only).
    - destruct h2 as [|b r2]; [apply (interleave_left_only (a :: r1))|].
      cbn. constructor. constructor. apply IH.
  Qed.

  (* THE LEMMA: whatever the schedule, each side of the two-instance run is the solo run of that side's
     history from that side's state.  Induction on the schedule, generalised over both states. *)
  Lemma run2_sides sg : forall s1 s2,
    side true (run2_gen sg (s1, s2)) = run_gen (side true sg) s1 /\
    side false (run2_gen sg (s1, s2)) = run_gen (side false sg) s2.
  Proof.
    induction sg as [|[[|] o] sg IH]; intros s1 s2; [split; reflexivity| |].
    - cbn [run2_gen fst snd]. destruct (step o s1) as [x s'] eqn:E.
      destruct (IH s' s2) as [IH1 IH2]. unfold side in *. cbn. rewrite E. rewrite IH1, IH2. split; reflexivity.
    - cbn [run2_gen fst snd]. destruct (step o s2) as [x s'] eqn:E.
      destruct (IH s1 s') as [IH1 IH2]. unfold side in *. cbn. rewrite E. rewrite IH1, IH2. split; reflexivity.
  Qed.

  Lemma final2_sides sg : forall s1 s2,
    final2_gen sg (s1, s2) = (final_gen (side true sg) s1, final_gen (side false sg) s2).
  Proof.
    induction sg as [|[[|] o] sg IH]; intros s1 s2; [reflexivity| |]; cbn [final2_gen fst snd]; rewrite IH;
      unfold side; cbn; reflexivity.
  Qed.

  Lemma instances_independent_gen h1 h2 sg s1 s2 :
    interleave h1 h2 sg ->
    side true (run2_gen sg (s1, s2)) = run_gen h1 s1 /\
    side false (run2_gen sg (s1, s2)) = run_gen h2 s2 /\
    final2_gen sg (s1, s2) = (final_gen h1 s1, final_gen h2 s2).
  Proof.
    intros H. destruct (interleave_sides _ _ _ H) as [<- <-]. destruct (run2_sides sg s1 s2) as [A B].
    split; [exact A|]. split; [exact B|]. apply final2_sides.
  Qed.

  (* what the other instance does — its history, its state, and how the two are scheduled — is invisible *)
  Lemma others_invisible_gen h1 h2 h2' sg sg' s1 s2 s2' :
    interleave h1 h2 sg -> interleave h1 h2' sg' ->
    side true (run2_gen sg (s1, s2)) = side true (run2_gen sg' (s1, s2')).
  Proof.
    intros H H'. destruct (instances_independent_gen _ _ _ s1 s2 H) as [-> _].
    destruct (instances_independent_gen _ _ _ s1 s2' H') as [-> _]. reflexivity.
  Qed.

  (* same for any number of instances (run (ii): "after several unrelated apps ran") *)
  Definition upd (f : nat -> St) (i : nat) (s : St) : nat -> St := fun j => if Nat.eqb j i then s else f j.
  Fixpoint runN_gen (sg : list (nat * Op)) (ss : nat -> St) : list (nat * (Out * St)) :=
    match sg with
    | [] => []
    | (i, o) :: r => let (x, s') := step o (ss i) in (i, (x, s')) :: runN_gen r (upd ss i s')
    end.
  Definition sideN {A} (i : nat) (l : list (nat * A)) : list A :=
    map snd (filter (fun x => Nat.eqb (fst x) i) l).

  Lemma runN_sides sg : forall ss i, sideN i (runN_gen sg ss) = run_gen (sideN i sg) (ss i).
  Proof.
    induction sg as [|[j o] sg IH]; intros ss i; [reflexivity|].
    cbn [runN_gen]. destruct (step o (ss j)) as [x s'] eqn:E. unfold sideN in *. cbn.
    destruct (Nat.eqb j i) eqn:J.
    - apply Nat.eqb_eq in J. subst j. cbn. rewrite E. rewrite IH. unfold upd. rewrite Nat.eqb_refl. reflexivity.
    - rewrite IH. unfold upd. rewrite Nat.eqb_sym, J. reflexivity.
  Qed.

  (* the transcript has one entry per operation, and its last state is the final state *)
  Lemma run_gen_length h : forall s, length (run_gen h s) = length h.
  Proof. induction h as [|o r IH]; intros s; cbn; [reflexivity|]. destruct (step o s). cbn. rewrite IH. reflexivity. Qed.

  Lemma run_gen_app h1 h2 : forall s, run_gen (h1 ++ h2) s = run_gen h1 s ++ run_gen h2 (final_gen h1 s).
  Proof.
    induction h1 as [|o r IH]; intros s; cbn; [reflexivity|]. destruct (step o s) as [x s']. cbn. rewrite IH. reflexivity.
  Qed.
End Machine.
Arguments interleave {A}.
Arguments side {A}.
Arguments sideN {A}.
Arguments alternate {A}.

(* instances that are CONFIGURED differently (another Api / address prefix, i.e. another static environment and
   address book; another custom module ...): instance i steps with its own function [stepi i].  Still nothing is
   shared, so each instance's side of any schedule is its solo run under its own configuration. *)
Section HeteroMachine.
  Variables St Op Out : Type.
  Variable stepi : nat -> Op -> St -> Out * St.

  Fixpoint runNh_gen (sg : list (nat * Op)) (ss : nat -> St) : list (nat * (Out * St)) :=
    match sg with
    | [] => []
    | (i, o) :: r => let (x, s') := stepi i o (ss i) in (i, (x, s')) :: runNh_gen r (upd St ss i s')
    end.

  Lemma runNh_sides sg : forall ss i,
    sideN i (runNh_gen sg ss) = run_gen St Op Out (stepi i) (sideN i sg) (ss i).
  Proof.
    induction sg as [|[j o] sg IH]; intros ss i; [reflexivity|].
    cbn [runNh_gen]. destruct (stepi j o (ss j)) as [x s'] eqn:E. unfold sideN in *. cbn.
    destruct (Nat.eqb j i) eqn:J.
    - apply Nat.eqb_eq in J. subst j. cbn. rewrite E. rewrite IH. unfold upd. rewrite Nat.eqb_refl. reflexivity.
    - rewrite IH. unfold upd. rewrite Nat.eqb_sym, J. reflexivity.
  Qed.
End HeteroMachine.

(* ====================================================================================================
   2. The executor model as such a machine: operation = (block, top-level call), state = chain
   ==================================================================================================== *)
Definition top_step (ce : case_env) (o : blockinfo * topop) (s : chain) : (trace * outcome (list resp)) * chain :=
  run_top (mk_env ce (fst o)) (snd o) s.

Definition run_hist (ce : case_env) : list (blockinfo * topop) -> chain -> list (trace * outcome (list resp) * chain) :=
  run_gen _ _ _ (top_step ce).
Definition final_hist (ce : case_env) : list (blockinfo * topop) -> chain -> chain := final_gen _ _ _ (top_step ce).
Definition run2 (ce : case_env) : list (bool * (blockinfo * topop)) -> chain * chain ->
                                  list (bool * (trace * outcome (list resp) * chain)) :=
  run2_gen _ _ _ (top_step ce).
Definition final2 (ce : case_env) := final2_gen _ _ _ (top_step ce).

(* it is the run every executor-level correspondence check evaluates (ChkExec.model_run) *)
Lemma run_hist_model_run ce steps : forall s,
  model_run ce steps s = run_hist ce (map (fun st => (st_blk st, st_op st)) steps) s.
Proof.
  induction steps as [|st r IH]; intros s; [reflexivity|].
  cbn [model_run map]. unfold run_hist in *. cbn [run_gen]. unfold top_step at 1. cbn [fst snd].
  destruct (run_top (mk_env ce (st_blk st)) (st_op st) s) as [[tr o] s']. rewrite IH. reflexivity.
Qed.

(* trivial in a functional model (see the header): same static data, history and state => same transcript *)
Lemma run_deterministic ce ce' h h' s s' : ce = ce' -> h = h' -> s = s' -> run_hist ce h s = run_hist ce' h' s'.
Proof. intros -> -> ->. reflexivity. Qed.

Lemma instances_independent ce h1 h2 sg s1 s2 :
  interleave h1 h2 sg ->
  side true (run2 ce sg (s1, s2)) = run_hist ce h1 s1 /\
  side false (run2 ce sg (s1, s2)) = run_hist ce h2 s2 /\
  final2 ce sg (s1, s2) = (final_hist ce h1 s1, final_hist ce h2 s2).
Proof. apply instances_independent_gen. Qed.

Lemma others_invisible ce h1 h2 h2' sg sg' s1 s2 s2' :
  interleave h1 h2 sg -> interleave h1 h2' sg' ->
  side true (run2 ce sg (s1, s2)) = side true (run2 ce sg' (s1, s2')).
Proof. apply others_invisible_gen. Qed.

(* the address handed to an instantiation is a function of the static books, the code table and the NUMBER of
   contracts registered in this instance's own state (wasm.rs:1017-1036) — nothing else *)
Lemma address_function_of_own_state e e' s s' code_id creator salt :
  codes e = codes e' -> classic_book e = classic_book e' -> salted_book e = salted_book e' ->
  length (reg s) = length (reg s') ->
  new_address e s code_id creator salt = new_address e' s' code_id creator salt.
Proof. unfold new_address. intros -> -> -> ->. reflexivity. Qed.

(* ====================================================================================================
   3. A whole instance: code table + current block + chain state (App{router.wasm.code_data, block, storage})
   ==================================================================================================== *)
(* what a stored contract carries (harness: Scripted{tag, checksum, has_*}) *)
Record cspec := { cs_tag : N; cs_checksum : option bytes; cs_sudo : bool; cs_reply : bool; cs_migrate : bool }.

Inductive iop :=
| IStore (creator : text) (c : cspec)              (* App::store_code / store_code_with_creator   wasm.rs:288-293 *)
| IStoreId (creator : text) (id : N) (c : cspec)   (* App::store_code_with_id                     wasm.rs:297-310 *)
| IDup (id : N)                                    (* App::duplicate_code                         wasm.rs:314-329 *)
| ISetBlock (b : blockinfo)                        (* App::set_block                              app.rs:408-414 *)
| IProbe (ids : list N)                            (* App::block_info + wrap().query_wasm_code_info(id) for each id *)
| ITop (t : topop)                                 (* execute / execute_multi / sudo / wasm_sudo / Executor helpers *)
| IOpaque (tag : N) (o : outcome (list resp)) (b : blockinfo) (s : chain).
  (* an operation the executor model does NOT cover (staking set-up, StakingMsg Delegate / Undelegate / Redelegate,
     DistributionMsg::WithdrawDelegatorReward, StakingSudo::Slash, App::update_block with its queue processing).
     The operation carries what run (i) of the implementation returned (responses or error-ness), the block and
     the decoded MODELLED windows it left: the model takes them as given (it adopts block and state and continues
     from there), so nothing is predicted about such a step; the un-modelled windows (staking, distribution) are
     never part of the model's state.  What IS decided about opaque steps is relational: Chk19.p_c19 compares
     their full observation (responses, events, data, error text, block, decoded windows, SHA-256 of the complete
     raw store incl. the staking windows) across all runs. *)

Inductive iout :=
| RId (r : outcome N)                              (* the code id returned *)
| RUnit
| RProbe (b : blockinfo) (l : list (option (N * text * bytes)))     (* (code id, creator, checksum) *)
| RTop (tr : trace) (o : outcome (list resp))
| ROpaque (o : outcome (list resp)) (b : blockinfo).

Record inst := { i_codes : list (N * code); i_blk : blockinfo; i_chain : chain }.

(* AppBuilder::new*: block = cosmwasm_std::testing::mock_env().block (app_builder.rs:122,158) *)
Definition default_block : blockinfo :=
  {| b_height := 12345; b_time := 1571797419879305533;
     b_chain := [99;111;115;109;111;115;45;116;101;115;116;110;101;116;45;49;52;48;48;50] |}.   (* "cosmos-testnet-14002" *)
Definition init_inst : inst := {| i_codes := []; i_blk := default_block; i_chain := empty_chain |}.

Definition set_codes (i : inst) cs := {| i_codes := cs; i_blk := i_blk i; i_chain := i_chain i |}.
Definition set_blk (i : inst) b := {| i_codes := i_codes i; i_blk := b; i_chain := i_chain i |}.
Definition set_chain (i : inst) s := {| i_codes := i_codes i; i_blk := i_blk i; i_chain := s |}.

Definition u64max : N := 18446744073709551615.
(* next_code_id (wasm.rs:516-518): code_data.keys().last().unwrap_or(&0).checked_add(1); code_data is a
   BTreeMap, so last() is the largest key *)
Definition max_id (cs : list (N * code)) : N := fold_right (fun p m => N.max (fst p) m) 0 cs.
Definition next_code_id (cs : list (N * code)) : option N :=
  let m := max_id cs in if m =? u64max then None else Some (m + 1).

(* SimpleChecksumGenerator (checksums.rs:18-24): SHA-256("contract code <id>"); the model never hashes: the
   case carries a book id |-> digest computed by the harness with its own sha2 call *)
Fixpoint find_ck (id : N) (l : list (N * bytes)) : option bytes :=
  match l with [] => None | (i, b) :: r => if i =? id then Some b else find_ck id r end.

(* save_code (wasm.rs:490-513).  BTreeMap::insert would overwrite, but both callers reach it only with an
   id that is not a key (next_code_id_fresh below / the contains_key test), so a plain cons is faithful *)
Definition save_code (ck : list (N * bytes)) (i : inst) (id : N) (creator : text) (c : cspec) : iout * inst :=
  match (match cs_checksum c with Some x => Some x | None => find_ck id ck end) with
  | Some x =>
      (RId (Ok id),
       set_codes i ((id, {| c_tag := cs_tag c; c_creator := creator; c_checksum := x; has_sudo := cs_sudo c;
                             has_reply := cs_reply c; has_migrate := cs_migrate c |}) :: i_codes i))
  | None => (RId Panic, i)          (* the checksum book of the case does not cover this id: harness error *)
  end.

Definition code_info (cs : list (N * code)) (id : N) : option (N * text * bytes) :=
  match find_code id cs with Some c => Some (id, c_creator c, c_checksum c) | None => None end.

Definition with_codes (ce : case_env) (cs : list (N * code)) : case_env :=
  {| ce_codes := cs; ce_valid := ce_valid ce; ce_classic := ce_classic ce; ce_salted := ce_salted ce |}.

Definition istep (ce : case_env) (ck : list (N * bytes)) (o : iop) (i : inst) : iout * inst :=
  match o with
  | IStore creator c =>
      match next_code_id (i_codes i) with
      | None => (RId Panic, i)                                    (* panic!(NoMoreCodeIdAvailable) *)
      | Some id => save_code ck i id creator c
      end
  | IStoreId creator id c =>
      match find_code id (i_codes i) with
      | Some _ => (RId Err, i)                                    (* duplicated code id *)
      | None => if id =? 0 then (RId Err, i) else save_code ck i id creator c
      end
  | IDup id =>
      if id <? 1 then (RId Err, i) else
      match find_code id (i_codes i) with
      | None => (RId Err, i)                                      (* unregistered code id *)
      | Some co =>
          match next_code_id (i_codes i) with
          | None => (RId Err, i)
          | Some nid => (RId (Ok nid), set_codes i ((nid, co) :: i_codes i))   (* same creator, checksum, source *)
          end
      end
  | ISetBlock b => (RUnit, set_blk i b)
  | IProbe ids => (RProbe (i_blk i) (map (code_info (i_codes i)) ids), i)
  | ITop t =>
      let '(tr, o, s') := run_top (mk_env (with_codes ce (i_codes i)) (i_blk i)) t (i_chain i) in
      (RTop tr o, set_chain i s')
  | IOpaque _ o b s => (ROpaque o b, {| i_codes := i_codes i; i_blk := b; i_chain := s |})
  end.

Definition run_inst (ce : case_env) (ck : list (N * bytes)) : list iop -> inst -> list (iout * inst) :=
  run_gen _ _ _ (istep ce ck).
Definition run2_inst (ce : case_env) (ck : list (N * bytes)) := run2_gen _ _ _ (istep ce ck).
Definition runN_inst (ce : case_env) (ck : list (N * bytes)) := runN_gen _ _ _ (istep ce ck).

(* every instance with its own static data (address books of its own prefix, its own checksum book) *)
Definition runNh_inst (cfg : nat -> case_env * list (N * bytes)) :=
  runNh_gen _ _ _ (fun i => istep (fst (cfg i)) (snd (cfg i))).

Lemma find_code_le_max id cs c : find_code id cs = Some c -> id <= max_id cs.
Proof.
  induction cs as [|[j d] cs IH]; cbn [find_code]; [discriminate|].
  change (max_id ((j, d) :: cs)) with (N.max j (max_id cs)). destruct (j =? id) eqn:E.
  - intros _. apply N.eqb_eq in E. subst j. apply N.le_max_l.
  - intros H. specialize (IH H). etransitivity; [exact IH|apply N.le_max_r].
Qed.

(* the id handed out by store_code / duplicate_code is not in use (so nothing is overwritten) and is larger
   than every id in use *)
Lemma next_code_id_fresh cs id : next_code_id cs = Some id -> find_code id cs = None /\ max_id cs < id.
Proof.
  unfold next_code_id. destruct (max_id cs =? u64max); [discriminate|]. intros H. injection H as <-.
  split; [|lia]. destruct (find_code (max_id cs + 1) cs) as [c|] eqn:F; [|reflexivity].
  apply find_code_le_max in F. lia.
Qed.

(* instances with their own code table and block: independent under every schedule *)
Lemma inst_independent ce ck h1 h2 sg i1 i2 :
  interleave h1 h2 sg ->
  side true (run2_inst ce ck sg (i1, i2)) = run_inst ce ck h1 i1 /\
  side false (run2_inst ce ck sg (i1, i2)) = run_inst ce ck h2 i2.
Proof.
  intros H. destruct (instances_independent_gen _ _ _ (istep ce ck) _ _ _ i1 i2 H) as [A [B _]]. split; assumption.
Qed.

Lemma inst_independent_N ce ck sg ss k :
  sideN k (runN_inst ce ck sg ss) = run_inst ce ck (sideN k sg) (ss k).
Proof. apply runN_sides. Qed.

Lemma inst_independent_hetero cfg sg ss k :
  sideN k (runNh_inst cfg sg ss) = run_inst (fst (cfg k)) (snd (cfg k)) (sideN k sg) (ss k).
Proof. apply (runNh_sides _ _ _ (fun i => istep (fst (cfg i)) (snd (cfg i)))). Qed.

(* code ids, code infos (creator, checksum), block, responses and states of two fresh instances given the same
   history coincide entry by entry; in particular the ids returned by store_code and the final state *)
Lemma fresh_instances_agree ce ck h sg h2 :
  interleave h h2 sg ->
  side true (run2_inst ce ck sg (init_inst, init_inst)) = run_inst ce ck h init_inst.
Proof. intros H. apply (inst_independent ce ck h h2 sg init_inst init_inst H). Qed.

Lemma twin_instances_agree ce ck h sg :
  interleave h h sg ->
  side true (run2_inst ce ck sg (init_inst, init_inst)) = side false (run2_inst ce ck sg (init_inst, init_inst)).
Proof. intros H. destruct (inst_independent ce ck h h sg init_inst init_inst H) as [-> ->]. reflexivity. Qed.
