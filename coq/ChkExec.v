(* ChkExec.v — case format shared with harness/exec_common, boolean equalities on observations, and the
   model run over a whole scenario.  Property-specific oracles are in ChkC01.v … *)
From Verif Require Import Base OMap Text Proto Bank Exec.
Local Open Scope N_scope.

Record case_env := { ce_codes : list (N * code); ce_valid : list text;
                     ce_classic : list ((N * N) * text); ce_salted : list ((bytes * text * bytes) * text) }.

Definition mk_env (ce : case_env) (b : blockinfo) : env :=
  {| codes := ce_codes ce; blk := b; valid_addrs := ce_valid ce; classic_book := ce_classic ce; salted_book := ce_salted ce |}.

(* one top-level call and what the IMPLEMENTATION did *)
Record step := {
  st_blk : blockinfo;
  st_op : topop;
  st_trace : trace;                       (* out-of-band log of scripted contracts and the recording module *)
  st_outcome : outcome (list resp);
  st_state : chain;                       (* raw root store after the call, partitioned by window and decoded *)
  st_other : N;                           (* number of raw keys in no modelled window *)
  st_raw_same : bool                      (* SHA-256 of the complete raw store before = after *)
}.

(* ---------- boolean equalities ---------- *)
Definition teqb : text -> text -> bool := beqb.
Definition coin_eqb (a b : coin) : bool := teqb (fst a) (fst b) && (snd a =? snd b).
Definition coins_eqb : coins -> coins -> bool := list_eqb coin_eqb.
Definition attr_eqb (a b : attr) : bool := teqb (fst a) (fst b) && teqb (snd a) (snd b).
Definition event_eqb (a b : event) : bool := teqb (fst a) (fst b) && list_eqb attr_eqb (snd a) (snd b).
Definition events_eqb : list event -> list event -> bool := list_eqb event_eqb.
Definition obytes_eqb : option bytes -> option bytes -> bool := option_eqb beqb.
Definition kv_eqb (a b : bytes * bytes) : bool := beqb (fst a) (fst b) && beqb (snd a) (snd b).
Definition resp_eqb (a b : resp) : bool := events_eqb (fst a) (fst b) && obytes_eqb (snd a) (snd b).
Definition blk_eqb (a b : blockinfo) : bool :=
  (b_height a =? b_height b) && (b_time a =? b_time b) && teqb (b_chain a) (b_chain b).
Definition rres_eqb (a b : rres) : bool :=
  match a, b with
  | RROk e1 d1, RROk e2 d2 => events_eqb e1 e2 && obytes_eqb d1 d2
  | RRErr, RRErr => true
  | _, _ => false
  end.
Definition ep_eqb (a b : ep) : bool :=
  match a, b with
  | EInst, EInst | EExec, EExec | EReply, EReply | ESudo, ESudo | EMigrate, EMigrate => true
  | _, _ => false
  end.
Definition obsval_eqb (a b : obsval) : bool :=
  match a, b with
  | VBytes x, VBytes y => obytes_eqb x y
  | VDump x, VDump y => list_eqb kv_eqb x y
  | VAmount x, VAmount y => option_eqb N.eqb x y
  | VCoins x, VCoins y => option_eqb coins_eqb x y
  | VRaw x, VRaw y => obytes_eqb x y
  | VInfo x, VInfo y =>
      option_eqb (fun p q => (fst (fst p) =? fst (fst q)) && teqb (snd (fst p)) (snd (fst q))
                             && option_eqb teqb (snd p) (snd q)) x y
  | VCodeInfo x, VCodeInfo y =>
      option_eqb (fun p q => (fst (fst p) =? fst (fst q)) && teqb (snd (fst p)) (snd (fst q)) && beqb (snd p) (snd q)) x y
  | VSmart x, VSmart y => obytes_eqb x y
  | _, _ => false
  end.
Definition rep_eqb (a b : N * bytes * rres) : bool :=
  (fst (fst a) =? fst (fst b)) && beqb (snd (fst a)) (snd (fst b)) && rres_eqb (snd a) (snd b).
Definition rentry_eqb (a b : rentry) : bool :=
  match a, b with
  | RCall n1 e1 c1 s1 f1 b1 t1 r1, RCall n2 e2 c2 s2 f2 b2 t2 r2 =>
      (n1 =? n2) && ep_eqb e1 e2 && teqb c1 c2 && option_eqb teqb s1 s2 && coins_eqb f1 f2 && blk_eqb b1 b2
      && (t1 =? t2) && option_eqb rep_eqb r1 r2
  | RQuery n1 c1 b1 t1, RQuery n2 c2 b2 t2 => (n1 =? n2) && teqb c1 c2 && blk_eqb b1 b2 && (t1 =? t2)
  | RObs n1 o1, RObs n2 o2 => (n1 =? n2) && obsval_eqb o1 o2
  | RMod s1 t1, RMod s2 t2 => teqb s1 s2 && (t1 =? t2)
  | _, _ => false
  end.
Definition trace_eqb : trace -> trace -> bool := list_eqb rentry_eqb.
Definition cdata_eqb (a b : cdata) : bool :=
  (cd_code a =? cd_code b) && teqb (cd_creator a) (cd_creator b) && option_eqb teqb (cd_admin a) (cd_admin b)
  && teqb (cd_label a) (cd_label b) && (cd_created a =? cd_created b).
Definition amap_eqb {A} (eq : A -> A -> bool) : list (text * A) -> list (text * A) -> bool :=
  list_eqb (fun p q => teqb (fst p) (fst q) && eq (snd p) (snd q)).
Definition chain_eqb (a b : chain) : bool :=
  amap_eqb coins_eqb (bank a) (bank b) && amap_eqb cdata_eqb (reg a) (reg b)
  && amap_eqb (list_eqb kv_eqb) (cstore a) (cstore b).
Definition outcome_eqb {A} (eq : A -> A -> bool) (a b : outcome A) : bool :=
  match a, b with Ok x, Ok y => eq x y | Err, Err => true | Panic, Panic => true | _, _ => false end.
Definition out_eqb : outcome (list resp) -> outcome (list resp) -> bool := outcome_eqb (list_eqb resp_eqb).

Definition empty_chain : chain := {| bank := bank_empty; reg := []; cstore := [] |}.

(* the model's run of a whole scenario, threading ITS OWN state *)
Fixpoint model_run (ce : case_env) (steps : list step) (s : chain) : list (trace * outcome (list resp) * chain) :=
  match steps with
  | [] => []
  | st :: r =>
      let '(tr, o, s') := run_top (mk_env ce (st_blk st)) (st_op st) s in
      (tr, o, s') :: model_run ce r s'
  end.

(* full correspondence: trace, outcome (events and data included) and state after every step.
   code k*8 + j: step k; j = 1 trace, 2 outcome, 3 state, 4 raw keys outside every window *)
Fixpoint corr (ce : case_env) (steps : list step) (s : chain) (k : N) : option N :=
  match steps with
  | [] => None
  | st :: r =>
      let '(tr, o, s') := run_top (mk_env ce (st_blk st)) (st_op st) s in
      if negb (trace_eqb tr (st_trace st)) then Some (k * 8 + 1)
      else if negb (out_eqb o (st_outcome st)) then Some (k * 8 + 2)
      else if negb (chain_eqb s' (st_state st)) then Some (k * 8 + 3)
      else if negb (st_other st =? 0) then Some (k * 8 + 4)
      else corr ce r s' (k + 1)
  end.

Definition cexec (ce : case_env) (steps : list step) : verdict :=
  match corr ce steps empty_chain 0 with Some k => Disagree k | None => Agree end.
