(* Chk20.v — C20: the executable per-case checks shared with harness/c20.
   Input = the chain of builder steps that was compiled and run against the real crate, each with the
   MARKER of the component it supplied; observation = which marker the built App / the contract wrapper
   shows for every field.  The check evaluates
     (b) the property ORACLE: every field shows the last marker supplied for it, else the default
         (marker 0 / None); the init function ran exactly once and saw that api / storage / bank;
         the storage holds what was seeded plus what init wrote                    -> PropFail k
     (a) the MODEL: the field-flow tables regenerated from the source, interpreted
         step by step (Builder.v)                                                   -> Disagree k
   This file only contains definitions over Generated.v (no lemma about a concrete table), so it
   compiles whatever the translator produced; the connecting lemmas are in Inst20.v. *)
From Verif Require Import Base Generated Builder.
From Coq Require Import String.
Local Open Scope string_scope.
Local Open Scope N_scope.

Definition unknownN : N := 4294967295.
Definition opqN (_ : string) : N := unknownN.
Definition opqO (_ : string) : option N := Some unknownN.

Definition kvb := (bytes * bytes)%type.
Definition kvb_eqb : kvb -> kvb -> bool := pair_eqb beqb beqb.

(* ---------- AppBuilder chains ---------- *)
(* observation: (marker per builder field in the order of [builder_fields], number of runs of the init
   function, markers [api; storage; bank] as seen from INSIDE the init function, final storage dump) *)
Definition app_obs := (list N * N * list N * list kvb)%type.

Definition str_bytes (s : string) : bytes := map (fun a => N.of_nat (Ascii.nat_of_ascii a)) (list_ascii_of_string s).

(* what the harness seeds / writes: with_storage(m) supplies a store holding marker -> [m], seed -> [m;m];
   the init function writes init -> [number of this run] *)
Definition expected_dump (storage_marker init_runs : N) : list kvb :=
  (if init_runs =? 0 then [] else [(str_bytes "init", [init_runs])]) ++
  (if storage_marker =? 0 then [] else [(str_bytes "marker", [storage_marker]); (str_bytes "seed", [storage_marker; storage_marker])]).

Definition app_spec (steps : list (string * N)) : app_obs :=
  let e f := match last_for builder_targets f steps with Some v => v | None => 0 end in
  (map e builder_fields, 1, [e "api"; e "storage"; e "bank"], expected_dump (e "storage") 1).

Definition app_model_state (steps : list (string * N)) : state N :=
  run_steps opqN 0 builder_steps steps (fun _ => 0).

Definition app_model (steps : list (string * N)) : app_obs :=
  match build_interp with
  | Some b =>
      let s := app_model_state steps in
      let bf := built_field opqN 0 b s in
      let runs := N.of_nat (List.length (b_inits b)) in
      (map bf builder_fields, runs,
       match b_inits b with
       | [args] => if list_eqb arg_eqb args init_args_spec then [bf "api"; bf "storage"; bf "bank"]
                   else [unknownN; unknownN; unknownN]
       | _ => []
       end,
       expected_dump (bf "storage") runs)
  | None => (map (fun _ => unknownN) builder_fields, unknownN, [], [])
  end.

Definition app_obs_diff (a b : app_obs) : option N :=
  let '(fa, ia, sa, da) := a in
  let '(fb, ib, sb, db) := b in
  match first_diff N.eqb fa fb 0 with
  | Some k => Some k
  | None => if negb (ia =? ib) then Some 100
            else match first_diff N.eqb sa sb 200 with
                 | Some k => Some k
                 | None => first_diff kvb_eqb da db 300
                 end
  end.

Definition c20_app (steps : list (string * N)) (observed : app_obs) : verdict :=
  match app_obs_diff (app_spec steps) observed with
  | Some k => PropFail k
  | None => match app_obs_diff (app_model steps) observed with
            | Some k => Disagree k
            | None => Agree
            end
  end.

(* ---------- ContractWrapper chains ---------- *)
(* observation: per field of [wrapper_fields] the marker of the entry point that answered / of the
   checksum, None = "not implemented" / no checksum *)
Definition wrap_obs := list (option N).

Definition lift_steps (steps : list (string * N)) : list (string * option N) := map (fun st => (fst st, Some (snd st))) steps.

Definition wrap_spec (cargs : list N) (steps : list (string * N)) : wrap_obs :=
  let s0 (f : string) : option N :=
    if String.eqb f "execute_fn" then Some (nth 0 cargs unknownN)
    else if String.eqb f "instantiate_fn" then Some (nth 1 cargs unknownN)
    else if String.eqb f "query_fn" then Some (nth 2 cargs unknownN) else None in
  map (fun f => match last_for wrapper_targets f (lift_steps steps) with Some v => v | None => s0 f end) wrapper_fields.

Definition wrap_state0 (ctor : string) (cargs : list N) : state (option N) :=
  match find_flow ctor wrapper_ctors with
  | Some fl => apply_flow opqO None fl (map Some cargs) (fun _ => None)
  | None => fun _ => Some unknownN
  end.

Definition wrap_model (ctor : string) (cargs : list N) (steps : list (string * N)) : wrap_obs :=
  map (run_steps opqO None wrapper_steps (lift_steps steps) (wrap_state0 ctor cargs)) wrapper_fields.

Definition c20_wrap (ctor : string) (cargs : list N) (steps : list (string * N)) (observed : wrap_obs) : verdict :=
  match first_diff (option_eqb N.eqb) (wrap_spec cargs steps) observed 0 with
  | Some k => PropFail k
  | None => match first_diff (option_eqb N.eqb) (wrap_model ctor cargs steps) observed 0 with
            | Some k => Disagree k
            | None => Agree
            end
  end.

(* ---------- reflexivity of the comparisons ---------- *)
Lemma kvb_eqb_refl x : kvb_eqb x x = true.
Proof. unfold kvb_eqb, pair_eqb. rewrite !(proj2 (beqb_eq _ _) eq_refl). reflexivity. Qed.

Lemma app_obs_diff_refl a : app_obs_diff a a = None.
Proof.
  destruct a as [[[f i] s] d]. unfold app_obs_diff.
  rewrite (first_diff_refl N.eqb N.eqb_refl), N.eqb_refl. cbn [negb].
  rewrite (first_diff_refl N.eqb N.eqb_refl). apply first_diff_refl, kvb_eqb_refl.
Qed.

Lemma opt_eqb_refl (x : option N) : option_eqb N.eqb x x = true.
Proof. destruct x; cbn; [apply N.eqb_refl|reflexivity]. Qed.
