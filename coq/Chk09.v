(* Chk09.v — C09: histories and observations shared with the harness, the LEDGER SPEC (what the
   property says, on functions account -> denom -> N), the run of the Bank.v model, and the
   per-case check `c09`:  first the property oracle on the implementation's own answers
   (PropFail k), then the correspondence with the model (Disagree k).
   k = 0 is the initial observation (after genesis), k = i + 1 is the observation after op i. *)
From Verif Require Import Base OMap Bank.
From Coq Require Import Sorted.
Local Open Scope N_scope.

(* ---------- histories ---------- *)

(* what the forwarding contract of the harness is told to emit, in order, as plain messages *)
Inductive cact :=
| CSend (to : text) (cs : coins)           (* BankMsg::Send from the contract's address *)
| CBurn (cs : coins).                      (* BankMsg::Burn from the contract's address *)

Inductive op :=
| OInit (a : text) (cs : coins)            (* router.bank.init_balance through app.init_modules: OVERWRITES *)
| OMint (to : text) (cs : coins)           (* BankSudo::Mint through app.sudo (to_address is addr_validate'd) *)
| OSend (from to : text) (cs : coins)      (* BankMsg::Send through app.execute; recipient NOT validated *)
| OBurn (from : text) (cs : coins)         (* BankMsg::Burn through app.execute *)
| OContract (sender contract : text) (funds : coins) (acts : list cact).
    (* app.execute_contract(sender, contract, acts, funds): the attached funds move first (only if the
       list is non-empty, wasm.rs:560), then the contract's messages run in order; one transaction *)

Inductive res := ROk | RErr | RPanic.

(* what is asked after every op.  Accounts and denoms are those of the scenario, in its order.
   None = the query did not answer (Err, e.g. addr_validate rejects the address, or a panic). *)
Record obs := MkObs {
  o_all : list (option coins);             (* BankQuery::AllBalances per account *)
  o_bal : list (list (option N));          (* BankQuery::Balance per account, per denom *)
  o_sup : list (option N);                 (* BankQuery::Supply per denom *)
  o_raw : list (text * coins)              (* the decoded "bank"/"balances" window of App::storage() *)
}.

(* scenario: the account strings with "addr_validate accepts it" (computed by the harness with
   cosmwasm-std's MockApi, not by cw-multi-test) *)
Definition accounts := list (text * bool).
Definition is_valid (accts : accounts) (a : text) : bool :=
  match assoc bcmp a accts with Some b => b | None => false end.

(* ---------- the ledger spec: the property, read literally ---------- *)

Definition fbal := text -> text -> N.

Definition f_mint (f : fbal) (to : text) (cs : coins) : option fbal :=
  if has_pos cs then Some (fun a d => if beqb a to then f a d + tot d cs else f a d) else None.
Definition f_burn (f : fbal) (from : text) (cs : coins) : option fbal :=
  if has_pos cs && covers (f from) cs
  then Some (fun a d => if beqb a from then f a d - tot d cs else f a d) else None.
(* "moves exactly the stated amount of each denomination from sender to recipient and changes no
   other balance"; for from = to this is (f - t) + t = f, and it still needs t <= f *)
Definition f_send (f : fbal) (from to : text) (cs : coins) : option fbal :=
  if has_pos cs && covers (f from) cs
  then Some (fun a d => (if beqb a to then tot d cs else 0) +
                        (if beqb a from then f a d - tot d cs else f a d))
  else None.
(* genesis: the account holds exactly the listed totals afterwards *)
Definition f_init (f : fbal) (a0 : text) (cs : coins) : option fbal :=
  Some (fun a d => if beqb a a0 then tot d cs else f a d).

Definition f_act (c : text) (f : fbal) (x : cact) : option fbal :=
  match x with CSend to cs => f_send f c to cs | CBurn cs => f_burn f c cs end.
Fixpoint f_acts (c : text) (f : fbal) (l : list cact) : option fbal :=
  match l with
  | [] => Some f
  | x :: r => match f_act c f x with Some f' => f_acts c f' r | None => None end
  end.

(* Some f' = the op must succeed and leave f'; None = it must fail (and change nothing) *)
Definition spec_step (accts : accounts) (f : fbal) (o : op) : option fbal :=
  match o with
  | OInit a cs => f_init f a cs
  | OMint to cs => if is_valid accts to then f_mint f to cs else None
  | OSend from to cs => f_send f from to cs
  | OBurn from cs => f_burn f from cs
  | OContract sender c funds acts =>
      match (match funds with [] => Some f | _ => f_send f sender c funds end) with
      | Some f1 => f_acts c f1 acts
      | None => None
      end
  end.

(* ---------- the model's run ---------- *)

Definition m_act (c : text) (s : bank_state) (x : cact) : outcome bank_state :=
  match x with CSend to cs => bank_send s c to cs | CBurn cs => bank_burn s c cs end.
Fixpoint m_acts (c : text) (s : bank_state) (l : list cact) : outcome bank_state :=
  match l with
  | [] => Ok s
  | x :: r => match m_act c s x with Ok s' => m_acts c s' r | Err => Err | Panic => Panic end
  end.

Definition step (accts : accounts) (s : bank_state) (o : op) : outcome bank_state :=
  match o with
  | OInit a cs => bank_init s a cs
  | OMint to cs => if is_valid accts to then bank_mint s to cs else Err     (* bank.rs:283 *)
  | OSend from to cs => bank_send s from to cs
  | OBurn from cs => bank_burn s from cs
  | OContract sender c funds acts =>
      match (match funds with [] => Ok s | _ => bank_send s sender c funds end) with
      | Ok s1 => m_acts c s1 acts
      | Err => Err
      | Panic => Panic
      end
  end.

(* a failed (or panicked) op leaves the state it started from: App::execute / App::sudo run inside
   `transactional` (C06), so nothing of a failed transaction is kept *)
Definition step_res (accts : accounts) (s : bank_state) (o : op) : res * bank_state :=
  match step accts s o with Ok s' => (ROk, s') | Err => (RErr, s) | Panic => (RPanic, s) end.

Fixpoint run (accts : accounts) (s : bank_state) (ops : list op) : list (res * bank_state) :=
  match ops with
  | [] => []
  | o :: r => let rs := step_res accts s o in rs :: run accts (snd rs) r
  end.

Definition state_after (accts : accounts) (s : bank_state) (ops : list op) : bank_state :=
  fold_left (fun s o => snd (step_res accts s o)) ops s.

(* genesis: init_balance calls inside the AppBuilder::build closure, in order *)
Fixpoint genesis_state (s : bank_state) (g : list (text * coins)) : outcome bank_state :=
  match g with
  | [] => Ok s
  | (a, cs) :: r => match bank_init s a cs with Ok s' => genesis_state s' r | Err => Err | Panic => Panic end
  end.
Fixpoint genesis_spec (f : fbal) (g : list (text * coins)) : fbal :=
  match g with
  | [] => f
  | (a, cs) :: r => genesis_spec (fun a' d => if beqb a' a then tot d cs else f a' d) r
  end.

Definition model_obs (accts : accounts) (denoms : list text) (s : bank_state) : obs :=
  MkObs (map (fun av : text * bool => if snd av then Some (bank_all s (fst av)) else None) accts)
        (map (fun av : text * bool =>
                map (fun d : text => if snd av then Some (bank_balance s (fst av) d) else None) denoms) accts)
        (map (fun d : text => Some (bank_supply s d)) denoms)
        s.

(* ---------- equality tests ---------- *)

Definition coin_eqb : coin -> coin -> bool := pair_eqb beqb N.eqb.
Definition coins_eqb : coins -> coins -> bool := list_eqb coin_eqb.
Definition entry_eqb : text * coins -> text * coins -> bool := pair_eqb beqb coins_eqb.
Definition obs_eqb (x y : obs) : bool :=
  list_eqb (option_eqb coins_eqb) (o_all x) (o_all y) &&
  list_eqb (list_eqb (option_eqb N.eqb)) (o_bal x) (o_bal y) &&
  list_eqb (option_eqb N.eqb) (o_sup x) (o_sup y) &&
  list_eqb entry_eqb (o_raw x) (o_raw y).
Definition res_eqb (x y : res) : bool :=
  match x, y with ROk, ROk | RErr, RErr | RPanic, RPanic => true | _, _ => false end.
Definition ro_eqb (x y : res * obs) : bool := res_eqb (fst x) (fst y) && obs_eqb (snd x) (snd y).

Lemma coin_eqb_refl c : coin_eqb c c = true.
Proof. unfold coin_eqb, pair_eqb. rewrite N.eqb_refl, beqb_refl. reflexivity. Qed.
Lemma list_eqb_refl {A} (e : A -> A -> bool) (H : forall a, e a a = true) l : list_eqb e l l = true.
Proof. induction l as [|x l IH]; cbn; [reflexivity|]. rewrite H, IH. reflexivity. Qed.
Lemma option_eqb_refl {A} (e : A -> A -> bool) (H : forall a, e a a = true) o : option_eqb e o o = true.
Proof. destruct o; cbn; auto. Qed.
Lemma coins_eqb_refl l : coins_eqb l l = true.
Proof. apply list_eqb_refl, coin_eqb_refl. Qed.
Lemma entry_eqb_refl e : entry_eqb e e = true.
Proof. unfold entry_eqb, pair_eqb. rewrite coins_eqb_refl, beqb_refl. reflexivity. Qed.
Lemma obs_eqb_refl x : obs_eqb x x = true.
Proof.
  unfold obs_eqb. rewrite !list_eqb_refl; try reflexivity.
  - apply entry_eqb_refl.
  - intros o. apply option_eqb_refl, N.eqb_refl.
  - intros l. apply list_eqb_refl. intros o. apply option_eqb_refl, N.eqb_refl.
  - intros o. apply option_eqb_refl, coins_eqb_refl.
Qed.
Lemma ro_eqb_refl x : ro_eqb x x = true.
Proof. unfold ro_eqb. rewrite obs_eqb_refl. destruct (fst x); reflexivity. Qed.

(* ---------- the property oracle, on observations ---------- *)

(* the ledger an observation denotes: what each account string holds in the bank window.
   Summed (tot), not find-first, so that it means "all coins stored under that key". *)
Definition fb (raw : list (text * coins)) : fbal := fun a d => tot d (get_balance raw a).

(* Supply d must be the sum over ALL stored accounts, also those no query can name *)
Definition raw_supply (raw : list (text * coins)) (d : text) : N := bank_supply raw d.

(* strictly denom-sorted, no zero amounts *)
Fixpoint strict_pos (l : coins) : bool :=
  match l with
  | [] => true
  | (d, a) :: r =>
      (0 <? a) && (match r with [] => true | (d', _) :: _ => match bcmp d d' with Lt => true | _ => false end end)
      && strict_pos r
  end.

(* the three query kinds agree with each other and with the stored ledger *)
Definition acct_consistent (denoms : list text) (raw : list (text * coins))
           (av : text * bool) (all : option coins) (bals : list (option N)) : bool :=
  if snd av then
    match all with
    | Some l =>
        strict_pos l && coins_eqb l (get_balance raw (fst av)) &&
        list_eqb (option_eqb N.eqb) bals (map (fun d => Some (amount_of d l)) denoms)
    | None => false
    end
  else
    match all with
    | None => list_eqb (option_eqb N.eqb) bals (map (fun _ => None) denoms)
    | Some _ => false
    end.

Fixpoint accts_consistent (denoms : list text) (raw : list (text * coins))
         (accts : accounts) (alls : list (option coins)) (balss : list (list (option N))) : bool :=
  match accts, alls, balss with
  | [], [], [] => true
  | av :: accts', all :: alls', bals :: balss' =>
      acct_consistent denoms raw av all bals && accts_consistent denoms raw accts' alls' balss'
  | _, _, _ => false
  end.

Definition obs_consistent (accts : accounts) (denoms : list text) (x : obs) : bool :=
  accts_consistent denoms (o_raw x) accts (o_all x) (o_bal x) &&
  list_eqb (option_eqb N.eqb) (o_sup x) (map (fun d => Some (raw_supply (o_raw x) d)) denoms).

(* every (account, denom) that occurs anywhere around this step *)
Definition coins_denoms (cs : coins) : list text := map fst cs.
Definition raw_denoms (raw : list (text * coins)) : list text := flat_map (fun e => coins_denoms (snd e)) raw.
Definition act_denoms (x : cact) : list text :=
  match x with CSend _ cs => coins_denoms cs | CBurn cs => coins_denoms cs end.
Definition act_accts (x : cact) : list text := match x with CSend to _ => [to] | CBurn _ => [] end.
Definition op_denoms (o : op) : list text :=
  match o with
  | OInit _ cs | OMint _ cs | OSend _ _ cs | OBurn _ cs => coins_denoms cs
  | OContract _ _ funds acts => coins_denoms funds ++ flat_map act_denoms acts
  end.
Definition op_accts (o : op) : list text :=
  match o with
  | OInit a _ => [a] | OMint a _ => [a] | OSend a b _ => [a; b] | OBurn a _ => [a]
  | OContract a c _ acts => a :: c :: flat_map act_accts acts
  end.

Definition agree_on (us : list text) (ds : list text) (f g : fbal) : bool :=
  forallb (fun a => forallb (fun d => f a d =? g a d) ds) us.

Definition step_ok (accts : accounts) (denoms : list text) (B : obs) (o : op) (r : res) (A : obs) : bool :=
  obs_consistent accts denoms A &&
  match spec_step accts (fb (o_raw B)) o, r with
  | Some f', ROk =>
      agree_on (map fst accts ++ op_accts o ++ map fst (o_raw B) ++ map fst (o_raw A))
               (denoms ++ op_denoms o ++ raw_denoms (o_raw B) ++ raw_denoms (o_raw A))
               (fb (o_raw A)) f'
  | None, RErr => obs_eqb A B                    (* fails and changes nothing *)
  | _, _ => false
  end.

Fixpoint oracle_from (accts : accounts) (denoms : list text) (B : obs) (ops : list op)
         (tr : list (res * obs)) (k : N) : option N :=
  match ops, tr with
  | [], [] => None
  | o :: ops', (r, A) :: tr' =>
      if step_ok accts denoms B o r A then oracle_from accts denoms A ops' tr' (N.succ k) else Some k
  | _, _ => Some k
  end.

Definition genesis_ok (accts : accounts) (denoms : list text) (g : list (text * coins)) (x : obs) : bool :=
  obs_consistent accts denoms x &&
  agree_on (map fst accts ++ map fst g ++ map fst (o_raw x))
           (denoms ++ raw_denoms g ++ raw_denoms (o_raw x))
           (fb (o_raw x)) (genesis_spec (fun _ _ => 0) g).

Definition oracle (accts : accounts) (denoms : list text) (g : list (text * coins)) (ops : list op)
           (obs0 : obs) (tr : list (res * obs)) : option N :=
  if genesis_ok accts denoms g obs0 then oracle_from accts denoms obs0 ops tr 1 else Some 0.

(* ---------- the model's trace and the check ---------- *)

Definition model_trace (accts : accounts) (denoms : list text) (s0 : bank_state) (ops : list op)
  : list (res * obs) :=
  map (fun rs => (fst rs, model_obs accts denoms (snd rs))) (run accts s0 ops).

Definition c09 (accts : accounts) (denoms : list text) (g : list (text * coins)) (ops : list op)
           (obs0 : obs) (tr : list (res * obs)) : verdict :=
  match oracle accts denoms g ops obs0 tr with
  | Some k => PropFail k
  | None =>
      match genesis_state bank_empty g with
      | Ok s0 =>
          match first_diff ro_eqb ((ROk, model_obs accts denoms s0) :: model_trace accts denoms s0 ops)
                           ((ROk, obs0) :: tr) 0 with
          | Some k => Disagree k
          | None => Agree
          end
      | _ => Disagree 0
      end
  end.

(* ====================================================================================== *)
(* LEMMAS: the model satisfies the ledger spec; the oracle accepts the model's own run *)

Definition sim (s : bank_state) (f : fbal) : Prop := forall a d, bank_balance s a d = f a d.

Lemma sim_fb s : bank_wf s -> sim s (fb s).
Proof. intros H a d. unfold fb. apply bank_balance_tot, H. Qed.

Lemma covers_ext h1 h2 cs : (forall d, h1 d = h2 d) -> covers h1 cs = covers h2 cs.
Proof.
  intros H. unfold covers.
  assert (G : forall l : coins, forallb (fun c : coin => tot (fst c) cs <=? h1 (fst c)) l =
                                forallb (fun c : coin => tot (fst c) cs <=? h2 (fst c)) l).
  { induction l as [|c l IH]; cbn; [reflexivity|]. rewrite H, IH. reflexivity. }
  apply G.
Qed.

Lemma covers_sim s f a cs : sim s f -> covers (f a) cs = covers (bank_balance s a) cs.
Proof. intros H. apply covers_ext. intros d. symmetry. apply H. Qed.

Lemma covers_true_of s a cs : (forall d, tot d cs <= bank_balance s a d) -> covers (bank_balance s a) cs = true.
Proof. intros H. apply covers_iff, H. Qed.

Lemma covers_false_of s a cs d : bank_balance s a d < tot d cs -> covers (bank_balance s a) cs = false.
Proof.
  intros H. destruct (covers (bank_balance s a) cs) eqn:E; [|reflexivity].
  rewrite covers_iff in E. specialize (E d). lia.
Qed.

Lemma sim_send s f from to cs : bank_wf s -> sim s f ->
  match bank_send s from to cs, f_send f from to cs with
  | Ok s', Some f' => bank_wf s' /\ sim s' f' /\ forall d, bank_supply s' d = bank_supply s d
  | Err, None => True
  | Panic, _ => exists d, U128 <= bank_supply s d
  | _, _ => False
  end.
Proof.
  intros Hw Hs. pose proof (bank_send_spec s from to cs Hw) as S. unfold f_send.
  rewrite (covers_sim s f from cs Hs). destruct (bank_send s from to cs) as [s'| |].
  - destruct S as (Hw' & P & Hc & Hb & Hsup). rewrite P, (covers_true_of s from cs Hc). cbn.
    split; [exact Hw'|]. split; [|exact Hsup]. intros a d. rewrite Hb, <- !Hs. reflexivity.
  - destruct S as [P|[d Hd]].
    + rewrite P. exact I.
    + rewrite (covers_false_of s from cs d Hd), andb_false_r. exact I.
  - destruct S as [d [_ Hd]]. exists d. exact Hd.
Qed.

Lemma sim_burn s f from cs : bank_wf s -> sim s f ->
  match bank_burn s from cs, f_burn f from cs with
  | Ok s', Some f' => bank_wf s' /\ sim s' f' /\ forall d, bank_supply s' d <= bank_supply s d
  | Err, None => True
  | _, _ => False
  end.
Proof.
  intros Hw Hs. pose proof (bank_burn_spec s from cs Hw) as S. unfold f_burn.
  rewrite (covers_sim s f from cs Hs). destruct (bank_burn s from cs) as [s'| |].
  - destruct S as (Hw' & P & Hc & Hb & Hsup). rewrite P, (covers_true_of s from cs Hc). cbn.
    split; [exact Hw'|]. split.
    + intros a d. rewrite Hb, <- !Hs. reflexivity.
    + intros d. specialize (Hsup d). lia.
  - destruct S as [P|[d Hd]].
    + rewrite P. exact I.
    + rewrite (covers_false_of s from cs d Hd), andb_false_r. exact I.
  - exact S.
Qed.

Lemma sim_mint s f to cs : bank_wf s -> sim s f ->
  match bank_mint s to cs, f_mint f to cs with
  | Ok s', Some f' => bank_wf s' /\ sim s' f' /\ forall d, bank_supply s' d = bank_supply s d + tot d cs
  | Err, None => True
  | Panic, _ => exists d, U128 <= bank_supply s d + tot d cs
  | _, _ => False
  end.
Proof.
  intros Hw Hs. pose proof (bank_mint_spec s to cs Hw) as S. unfold f_mint.
  destruct (bank_mint s to cs) as [s'| |].
  - destruct S as (Hw' & P & Hb & Hsup). rewrite P. split; [exact Hw'|]. split; [|exact Hsup].
    intros a d. rewrite Hb, <- !Hs. reflexivity.
  - rewrite S. exact I.
  - destruct S as [d Hd]. exists d. pose proof (balance_le_supply s to d Hw). lia.
Qed.

Lemma sim_init s f a cs : bank_wf s -> sim s f ->
  match bank_init s a cs, f_init f a cs with
  | Ok s', Some f' => bank_wf s' /\ sim s' f' /\ forall d, bank_supply s' d <= bank_supply s d + tot d cs
  | Panic, _ => exists d, U128 <= tot d cs
  | _, _ => False
  end.
Proof.
  intros Hw Hs. pose proof (bank_init_spec s a cs Hw) as S. unfold f_init.
  destruct (bank_init s a cs) as [s'| |]; [|exact S|exact S].
  destruct S as (Hw' & Hb & Hsup). split; [exact Hw'|]. split.
  - intros x d. rewrite Hb, <- Hs. reflexivity.
  - intros d. specialize (Hsup d). lia.
Qed.

Lemma sim_acts c : forall acts s f, bank_wf s -> sim s f ->
  match m_acts c s acts, f_acts c f acts with
  | Ok s', Some f' => bank_wf s' /\ sim s' f' /\ forall d, bank_supply s' d <= bank_supply s d
  | Err, None => True
  | Panic, _ => exists d, U128 <= bank_supply s d
  | _, _ => False
  end.
Proof.
  induction acts as [|x acts IH]; intros s f Hw Hs.
  - cbn. split; [exact Hw|]. split; [exact Hs|]. intros; lia.
  - cbn [m_acts f_acts]. destruct x as [to cs|cs]; cbn [m_act f_act].
    + pose proof (sim_send s f c to cs Hw Hs) as S.
      destruct (bank_send s c to cs) as [s1| |], (f_send f c to cs) as [f1|]; try exact S; try contradiction.
      destruct S as (Hw1 & Hs1 & Hsup1). specialize (IH s1 f1 Hw1 Hs1).
      destruct (m_acts c s1 acts) as [s2| |], (f_acts c f1 acts) as [f2|]; try exact IH; try contradiction.
      * destruct IH as (Hw2 & Hs2 & Hsup2). split; [exact Hw2|]. split; [exact Hs2|].
        intros d. rewrite <- Hsup1. apply Hsup2.
      * destruct IH as [d Hd]. exists d. rewrite <- Hsup1. exact Hd.
      * destruct IH as [d Hd]. exists d. rewrite <- Hsup1. exact Hd.
    + pose proof (sim_burn s f c cs Hw Hs) as S.
      destruct (bank_burn s c cs) as [s1| |], (f_burn f c cs) as [f1|]; try exact S; try contradiction.
      destruct S as (Hw1 & Hs1 & Hsup1). specialize (IH s1 f1 Hw1 Hs1).
      destruct (m_acts c s1 acts) as [s2| |], (f_acts c f1 acts) as [f2|]; try exact IH; try contradiction.
      * destruct IH as (Hw2 & Hs2 & Hsup2). split; [exact Hw2|]. split; [exact Hs2|].
        intros d. specialize (Hsup1 d). specialize (Hsup2 d). lia.
      * destruct IH as [d Hd]. exists d. specialize (Hsup1 d). lia.
      * destruct IH as [d Hd]. exists d. specialize (Hsup1 d). lia.
Qed.

(* coins that an op offers to create *)
Definition offered (d : text) (o : op) : N :=
  match o with OInit _ cs => tot d cs | OMint _ cs => tot d cs | _ => 0 end.
Fixpoint offered_all (d : text) (ops : list op) : N :=
  match ops with [] => 0 | o :: r => offered d o + offered_all d r end.

(* one step of the model against one step of the spec *)
Lemma sim_step accts s f o : bank_wf s -> sim s f ->
  match step accts s o, spec_step accts f o with
  | Ok s', Some f' => bank_wf s' /\ sim s' f' /\ forall d, bank_supply s' d <= bank_supply s d + offered d o
  | Err, None => True
  | Panic, _ => exists d, U128 <= bank_supply s d + offered d o
  | _, _ => False
  end.
Proof.
  intros Hw Hs. destruct o as [a cs|to cs|from to cs|from cs|sender c funds acts]; cbn [step spec_step offered].
  - pose proof (sim_init s f a cs Hw Hs) as S.
    destruct (bank_init s a cs) as [s'| |], (f_init f a cs) as [f'|]; try exact S; try contradiction.
    + destruct S as [d Hd]. exists d. lia.
    + destruct S as [d Hd]. exists d. lia.
  - destruct (is_valid accts to); [|exact I].
    pose proof (sim_mint s f to cs Hw Hs) as S.
    destruct (bank_mint s to cs) as [s'| |], (f_mint f to cs) as [f'|]; try exact S; try contradiction.
    destruct S as (H1 & H2 & H3). split; [exact H1|]. split; [exact H2|]. intros d. rewrite H3. lia.
  - pose proof (sim_send s f from to cs Hw Hs) as S.
    destruct (bank_send s from to cs) as [s'| |], (f_send f from to cs) as [f'|]; try exact S; try contradiction.
    + destruct S as (H1 & H2 & H3). split; [exact H1|]. split; [exact H2|]. intros d. rewrite H3. lia.
    + destruct S as [d Hd]. exists d. lia.
    + destruct S as [d Hd]. exists d. lia.
  - pose proof (sim_burn s f from cs Hw Hs) as S.
    destruct (bank_burn s from cs) as [s'| |], (f_burn f from cs) as [f'|]; try exact S; try contradiction.
    destruct S as (H1 & H2 & H3). split; [exact H1|]. split; [exact H2|]. intros d. specialize (H3 d). lia.
  - assert (S : match (match funds with [] => Ok s | _ => bank_send s sender c funds end),
                      (match funds with [] => Some f | _ => f_send f sender c funds end) with
                | Ok s', Some f' => bank_wf s' /\ sim s' f' /\ forall d, bank_supply s' d = bank_supply s d
                | Err, None => True
                | Panic, _ => exists d, U128 <= bank_supply s d
                | _, _ => False
                end).
    { destruct funds as [|c0 funds]; [split; [exact Hw|split; [exact Hs|reflexivity]]|].
      apply sim_send; assumption. }
    destruct (match funds with [] => Ok s | _ => bank_send s sender c funds end) as [s1| |],
             (match funds with [] => Some f | _ => f_send f sender c funds end) as [f1|];
      try exact S; try contradiction.
    + destruct S as (Hw1 & Hs1 & Hsup1). pose proof (sim_acts c acts s1 f1 Hw1 Hs1) as A.
      destruct (m_acts c s1 acts) as [s2| |], (f_acts c f1 acts) as [f2|]; try exact A; try contradiction.
      * destruct A as (H1 & H2 & H3). split; [exact H1|]. split; [exact H2|]. intros d. rewrite <- Hsup1.
        specialize (H3 d). lia.
      * destruct A as [d Hd]. exists d. rewrite <- Hsup1. lia.
      * destruct A as [d Hd]. exists d. rewrite <- Hsup1. lia.
    + destruct S as [d Hd]. exists d. lia.
    + destruct S as [d Hd]. exists d. lia.
Qed.

(* ---------- the run keeps the invariant; a failed step keeps the state ---------- *)

Lemma step_res_wf accts s o : bank_wf s -> bank_wf (snd (step_res accts s o)).
Proof.
  intros Hw. unfold step_res. pose proof (sim_step accts s (fb s) o Hw (sim_fb s Hw)) as S.
  destruct (step accts s o) as [s'| |]; cbn [snd]; try exact Hw.
  destruct (spec_step accts (fb s) o); [apply S|contradiction].
Qed.

Lemma step_res_fail accts s o : fst (step_res accts s o) <> ROk -> snd (step_res accts s o) = s.
Proof. unfold step_res. destruct (step accts s o); cbn; congruence. Qed.

Lemma state_after_wf accts ops : forall s, bank_wf s -> bank_wf (state_after accts s ops).
Proof.
  unfold state_after. induction ops as [|o ops IH]; intros s Hw; [exact Hw|].
  cbn [fold_left]. apply IH, step_res_wf, Hw.
Qed.

(* ---------- the model's observations are self-consistent (queries agree) ---------- *)

Lemma strict_pos_wf l : wf_coins l -> strict_pos l = true.
Proof.
  induction l as [|[d a] l IH]; intros Hw; [reflexivity|].
  destruct (wf_coins_inv _ _ _ Hw) as (Hw' & Hb & Ha). cbn [strict_pos].
  rewrite IH by exact Hw'. apply N.ltb_lt in Ha. rewrite Ha.
  destruct l as [|[d' a'] l]; [reflexivity|]. inversion Hb as [|? ? H1 H2]; subst.
  unfold lt in H1. rewrite H1. reflexivity.
Qed.

Lemma option_N_eqb_refl (o : option N) : option_eqb N.eqb o o = true.
Proof. destruct o; cbn; [apply N.eqb_refl|reflexivity]. Qed.

Lemma model_accts_consistent denoms s : bank_wf s -> forall accts : accounts,
  accts_consistent denoms s accts
    (map (fun av : text * bool => if snd av then Some (bank_all s (fst av)) else None) accts)
    (map (fun av : text * bool =>
            map (fun d : text => if snd av then Some (bank_balance s (fst av) d) else None) denoms) accts) = true.
Proof.
  intros Hw. induction accts as [|[a v] accts IH]; [reflexivity|].
  cbn [map accts_consistent fst snd]. rewrite IH, andb_true_r. unfold acct_consistent. cbn [fst snd].
  destruct v.
  - rewrite strict_pos_wf by (apply bank_all_wf, Hw). unfold bank_all at 2. rewrite coins_eqb_refl. cbn [andb].
    apply list_eqb_refl. apply option_N_eqb_refl.
  - apply list_eqb_refl. apply option_N_eqb_refl.
Qed.

Lemma model_obs_consistent accts denoms s : bank_wf s ->
  obs_consistent accts denoms (model_obs accts denoms s) = true.
Proof.
  intros Hw. unfold obs_consistent, model_obs. cbn [o_all o_bal o_sup o_raw].
  rewrite model_accts_consistent by exact Hw. cbn [andb]. unfold raw_supply.
  apply list_eqb_refl. apply option_N_eqb_refl.
Qed.

Lemma agree_on_sim us ds s f : bank_wf s -> sim s f -> agree_on us ds (fb s) f = true.
Proof.
  intros Hw Hs. unfold agree_on. apply forallb_forall. intros a _. apply forallb_forall. intros d _.
  apply N.eqb_eq. rewrite <- Hs. symmetry. apply sim_fb, Hw.
Qed.

(* ---------- the oracle accepts the model's own run ---------- *)

Definition hist_bounded (s : bank_state) (ops : list op) : Prop :=
  forall d, bank_supply s d + offered_all d ops < U128.

Lemma model_step_ok accts denoms s o : bank_wf s -> (forall d, bank_supply s d + offered d o < U128) ->
  let rs := step_res accts s o in
  step_ok accts denoms (model_obs accts denoms s) o (fst rs) (model_obs accts denoms (snd rs)) = true /\
  bank_wf (snd rs) /\ forall d, bank_supply (snd rs) d <= bank_supply s d + offered d o.
Proof.
  intros Hw Hb. cbn zeta. pose proof (step_res_wf accts s o Hw) as Hw'.
  unfold step_ok. rewrite model_obs_consistent by exact Hw'. cbn [andb].
  unfold step_res in *. cbn [model_obs o_raw].
  pose proof (sim_step accts s (fb s) o Hw (sim_fb s Hw)) as S.
  destruct (step accts s o) as [s'| |], (spec_step accts (fb s) o) as [f'|]; cbn [fst snd] in *;
    try contradiction.
  - destruct S as (H1 & H2 & H3). split; [|split; assumption]. apply agree_on_sim; assumption.
  - split; [apply obs_eqb_refl|]. split; [exact Hw|]. intros d. lia.
  - destruct S as [d Hd]. specialize (Hb d). lia.
  - destruct S as [d Hd]. specialize (Hb d). lia.
Qed.

Lemma model_oracle_from accts denoms : forall ops s k, bank_wf s -> hist_bounded s ops ->
  oracle_from accts denoms (model_obs accts denoms s) ops (model_trace accts denoms s ops) k = None.
Proof.
  induction ops as [|o ops IH]; intros s k Hw Hb; [reflexivity|].
  unfold model_trace. cbn [run map oracle_from fst snd].
  destruct (model_step_ok accts denoms s o Hw) as (H1 & H2 & H3).
  { intros d. specialize (Hb d). cbn [offered_all] in Hb. lia. }
  cbn zeta in H1, H2, H3. rewrite H1. apply IH; [exact H2|].
  intros d. specialize (Hb d). specialize (H3 d). cbn [offered_all] in Hb. lia.
Qed.

Lemma genesis_sim : forall g s f s', bank_wf s -> sim s f -> genesis_state s g = Ok s' ->
  bank_wf s' /\ sim s' (genesis_spec f g).
Proof.
  induction g as [|[a cs] g IH]; intros s f s' Hw Hs E.
  - cbn in E. injection E as <-. split; assumption.
  - cbn [genesis_state genesis_spec] in *. pose proof (bank_init_spec s a cs Hw) as S.
    destruct (bank_init s a cs) as [s1| |]; try discriminate.
    destruct S as (Hw1 & Hb1 & _). apply (IH s1 _ s' Hw1); [|exact E].
    intros x d. rewrite Hb1, <- Hs. reflexivity.
Qed.

Lemma sim_empty : sim bank_empty (fun _ _ => 0).
Proof. intros a d. reflexivity. Qed.

Lemma model_oracle accts denoms g ops s0 : genesis_state bank_empty g = Ok s0 -> hist_bounded s0 ops ->
  oracle accts denoms g ops (model_obs accts denoms s0) (model_trace accts denoms s0 ops) = None.
Proof.
  intros E Hb. destruct (genesis_sim g bank_empty _ s0 bank_wf_empty sim_empty E) as [Hw Hs].
  unfold oracle, genesis_ok. rewrite model_obs_consistent by exact Hw. cbn [andb].
  cbn [model_obs o_raw]. rewrite agree_on_sim by assumption.
  apply model_oracle_from; assumption.
Qed.

Lemma model_c09 accts denoms g ops s0 : genesis_state bank_empty g = Ok s0 -> hist_bounded s0 ops ->
  c09 accts denoms g ops (model_obs accts denoms s0) (model_trace accts denoms s0 ops) = Agree.
Proof.
  intros E Hb. unfold c09. rewrite (model_oracle accts denoms g ops s0 E Hb), E.
  rewrite first_diff_refl; [reflexivity|]. apply ro_eqb_refl.
Qed.

Lemma model_ok accts denoms g ops s0 : genesis_state bank_empty g = Ok s0 -> hist_bounded s0 ops ->
  oracle accts denoms g ops (model_obs accts denoms s0) (model_trace accts denoms s0 ops) = None /\
  c09 accts denoms g ops (model_obs accts denoms s0) (model_trace accts denoms s0 ops) = Agree.
Proof. intros E H. split; [apply model_oracle|apply model_c09]; assumption. Qed.

(* ---------- the ledger of a history: credits and debits of the successful ops ---------- *)

Definition cr_if (a x : text) (cs : coins) (d : text) : N := if beqb a x then tot d cs else 0.

Definition act_credit (x : cact) (a d : text) : N :=
  match x with CSend to cs => cr_if a to cs d | CBurn _ => 0 end.
Definition act_debit (c : text) (x : cact) (a d : text) : N :=
  match x with CSend _ cs => cr_if a c cs d | CBurn cs => cr_if a c cs d end.
Definition act_burned (x : cact) (d : text) : N := match x with CSend _ _ => 0 | CBurn cs => tot d cs end.

Fixpoint sum_acts (g : cact -> N) (l : list cact) : N := match l with [] => 0 | x :: r => g x + sum_acts g r end.

(* what a SUCCESSFUL op credits to / debits from (a, d); for the genesis overwrite the debit is
   whatever the account held (it is written off) and the credit is the listed total *)
Definition op_credit (s : bank_state) (o : op) (a d : text) : N :=
  match o with
  | OInit a0 cs => cr_if a a0 cs d
  | OMint to cs => cr_if a to cs d
  | OSend _ to cs => cr_if a to cs d
  | OBurn _ _ => 0
  | OContract _ c funds acts => cr_if a c funds d + sum_acts (fun x => act_credit x a d) acts
  end.
Definition op_debit (s : bank_state) (o : op) (a d : text) : N :=
  match o with
  | OInit a0 _ => if beqb a a0 then bank_balance s a d else 0
  | OMint _ _ => 0
  | OSend from _ cs => cr_if a from cs d
  | OBurn from cs => cr_if a from cs d
  | OContract sender c funds acts => cr_if a sender funds d + sum_acts (fun x => act_debit c x a d) acts
  end.
Definition op_minted (s : bank_state) (o : op) (d : text) : N :=
  match o with OInit _ cs => tot d cs | OMint _ cs => tot d cs | _ => 0 end.
Definition op_burned (s : bank_state) (o : op) (d : text) : N :=
  match o with
  | OInit a0 _ => bank_balance s a0 d
  | OBurn _ cs => tot d cs
  | OContract _ _ _ acts => sum_acts (fun x => act_burned x d) acts
  | _ => 0
  end.

(* sum of g over the successful ops of the run from s *)
Fixpoint ledger_sum (accts : accounts) (g : bank_state -> op -> N) (s : bank_state) (ops : list op) : N :=
  match ops with
  | [] => 0
  | o :: r =>
      let rs := step_res accts s o in
      (match fst rs with ROk => g s o | _ => 0 end) + ledger_sum accts g (snd rs) r
  end.

Lemma tot_nil_funds d : tot d [] = 0. Proof. reflexivity. Qed.

Lemma acts_ledger c : forall acts s s', bank_wf s -> m_acts c s acts = Ok s' ->
  (forall a d, bank_balance s' a d + sum_acts (fun x => act_debit c x a d) acts =
               bank_balance s a d + sum_acts (fun x => act_credit x a d) acts) /\
  (forall d, bank_supply s' d + sum_acts (fun x => act_burned x d) acts = bank_supply s d).
Proof.
  induction acts as [|x acts IH]; intros s s' Hw E.
  - cbn in E. injection E as <-. split; intros; cbn; lia.
  - cbn [m_acts] in E. destruct x as [to cs|cs]; cbn [m_act] in E.
    + pose proof (bank_send_spec s c to cs Hw) as S. destruct (bank_send s c to cs) as [s1| |]; try discriminate.
      destruct S as (Hw1 & _ & Hc & Hb & Hsup). destruct (IH s1 s' Hw1 E) as [I1 I2]. split.
      * intros a d. specialize (I1 a d). cbn [sum_acts act_debit act_credit]. unfold cr_if in *.
        rewrite Hb in I1. specialize (Hc d). destruct (beqb a to), (beqb a c) eqn:Ec; try lia.
        -- apply beqb_eq in Ec. subst a. lia.
        -- apply beqb_eq in Ec. subst a. lia.
      * intros d. specialize (I2 d). cbn [sum_acts act_burned]. rewrite Hsup in I2. lia.
    + pose proof (bank_burn_spec s c cs Hw) as S. destruct (bank_burn s c cs) as [s1| |]; try discriminate.
      destruct S as (Hw1 & _ & Hc & Hb & Hsup). destruct (IH s1 s' Hw1 E) as [I1 I2]. split.
      * intros a d. specialize (I1 a d). cbn [sum_acts act_debit act_credit]. unfold cr_if in *.
        rewrite Hb in I1. specialize (Hc d). destruct (beqb a c) eqn:Ec; try lia.
        apply beqb_eq in Ec. subst a. lia.
      * intros d. specialize (I2 d). specialize (Hsup d). cbn [sum_acts act_burned]. lia.
Qed.

Lemma step_ledger accts s o s' : bank_wf s -> step accts s o = Ok s' ->
  (forall a d, bank_balance s' a d + op_debit s o a d = bank_balance s a d + op_credit s o a d) /\
  (forall d, bank_supply s' d + op_burned s o d = bank_supply s d + op_minted s o d).
Proof.
  intros Hw E. destruct o as [a0 cs|to cs|from to cs|from cs|sender c funds acts];
    cbn [step op_debit op_credit op_burned op_minted] in *.
  - pose proof (bank_init_spec s a0 cs Hw) as S. rewrite E in S. destruct S as (_ & Hb & Hsup). split.
    + intros a d. rewrite Hb. unfold cr_if. destruct (beqb a a0); lia.
    + intros d. apply Hsup.
  - destruct (is_valid accts to); [|discriminate].
    pose proof (bank_mint_spec s to cs Hw) as S. rewrite E in S. destruct S as (_ & _ & Hb & Hsup). split.
    + intros a d. rewrite Hb. unfold cr_if. destruct (beqb a to); lia.
    + intros d. rewrite Hsup. lia.
  - pose proof (bank_send_spec s from to cs Hw) as S. rewrite E in S. destruct S as (_ & _ & Hc & Hb & Hsup). split.
    + intros a d. rewrite Hb. unfold cr_if. specialize (Hc d).
      destruct (beqb a to), (beqb a from) eqn:Ef; try lia.
      * apply beqb_eq in Ef. subst a. lia.
      * apply beqb_eq in Ef. subst a. lia.
    + intros d. rewrite Hsup. lia.
  - pose proof (bank_burn_spec s from cs Hw) as S. rewrite E in S. destruct S as (_ & _ & Hc & Hb & Hsup). split.
    + intros a d. rewrite Hb. unfold cr_if. specialize (Hc d). destruct (beqb a from) eqn:Ef; try lia.
      apply beqb_eq in Ef. subst a. lia.
    + intros d. specialize (Hsup d). lia.
  - assert (F : exists s1, (match funds with [] => Ok s | _ => bank_send s sender c funds end) = Ok s1 /\
                 bank_wf s1 /\
                 (forall a d, bank_balance s1 a d + cr_if a sender funds d = bank_balance s a d + cr_if a c funds d) /\
                 (forall d, bank_supply s1 d = bank_supply s d)).
    { destruct funds as [|c0 funds].
      - exists s. split; [reflexivity|]. split; [exact Hw|]. split; intros; unfold cr_if; cbn [tot];
          repeat match goal with |- context [if ?b then _ else _] => destruct b end; lia.
      - pose proof (bank_send_spec s sender c (c0 :: funds) Hw) as S.
        destruct (bank_send s sender c (c0 :: funds)) as [s1| |]; try discriminate.
        destruct S as (Hw1 & _ & Hc & Hb & Hsup). exists s1. split; [reflexivity|]. split; [exact Hw1|].
        split; [|exact Hsup]. intros a d. rewrite Hb. unfold cr_if. specialize (Hc d).
        destruct (beqb a c), (beqb a sender) eqn:Ef; try lia.
        + apply beqb_eq in Ef. subst a. lia.
        + apply beqb_eq in Ef. subst a. lia. }
    destruct F as (s1 & E1 & Hw1 & Hb1 & Hsup1). rewrite E1 in E.
    destruct (acts_ledger c acts s1 s' Hw1 E) as [I1 I2]. split.
    + intros a d. specialize (I1 a d). specialize (Hb1 a d). lia.
    + intros d. specialize (I2 d). rewrite Hsup1 in I2. lia.
Qed.

Lemma history_ledger_lemma accts : forall ops s, bank_wf s ->
  (forall a d, bank_balance (state_after accts s ops) a d + ledger_sum accts (fun s o => op_debit s o a d) s ops =
               bank_balance s a d + ledger_sum accts (fun s o => op_credit s o a d) s ops) /\
  (forall d, bank_supply (state_after accts s ops) d + ledger_sum accts (fun s o => op_burned s o d) s ops =
             bank_supply s d + ledger_sum accts (fun s o => op_minted s o d) s ops).
Proof.
  induction ops as [|o ops IH]; intros s Hw.
  - split; intros; cbn; lia.
  - unfold state_after in *. cbn [fold_left ledger_sum]. cbn zeta.
    pose proof (step_res_wf accts s o Hw) as Hw'. destruct (IH _ Hw') as [I1 I2].
    unfold step_res in *. destruct (step accts s o) as [s'| |] eqn:E; cbn [fst snd] in *.
    + destruct (step_ledger accts s o s' Hw E) as [L1 L2]. split.
      * intros a d. specialize (I1 a d). specialize (L1 a d). lia.
      * intros d. specialize (I2 d). specialize (L2 d). lia.
    + split; [intros a d; specialize (I1 a d)|intros d; specialize (I2 d)]; lia.
    + split; [intros a d; specialize (I1 a d)|intros d; specialize (I2 d)]; lia.
Qed.

Lemma run_no_panic accts : forall ops s, bank_wf s -> hist_bounded s ops ->
  Forall (fun rs : res * bank_state => fst rs <> RPanic) (run accts s ops).
Proof.
  induction ops as [|o ops IH]; intros s Hw Hb; [constructor|].
  cbn [run]. cbn zeta.
  assert (Hb0 : forall d, bank_supply s d + offered d o < U128).
  { intros d. specialize (Hb d). cbn [offered_all] in Hb. lia. }
  destruct (model_step_ok accts [] s o Hw Hb0) as (_ & H2 & H3). cbn zeta in H2, H3.
  constructor.
  - unfold step_res. pose proof (sim_step accts s (fb s) o Hw (sim_fb s Hw)) as S.
    destruct (step accts s o) as [s'| |]; cbn [fst]; try discriminate.
    destruct S as [d Hd]. specialize (Hb0 d). lia.
  - apply IH; [exact H2|]. intros d. specialize (Hb d). specialize (H3 d). cbn [offered_all] in Hb. lia.
Qed.

(* ---------- the statements pinned in Properties/C09.v ---------- *)

Definition some_positive (cs : coins) : Prop := exists c, In c cs /\ 0 < snd c.

Lemma not_pos_false cs : ~ some_positive cs -> has_pos cs = false.
Proof. intros H. destruct (has_pos cs) eqn:E; [|reflexivity]. apply has_pos_iff in E. contradiction. Qed.

Lemma P_send_ok_iff s from to cs : bank_wf s -> no_overflow s to cs ->
  ((exists s', bank_send s from to cs = Ok s') <->
   (some_positive cs /\ forall d, tot d cs <= bank_balance s from d)) /\
  bank_send s from to cs <> Panic.
Proof.
  intros Hw Hn. pose proof (bank_send_spec s from to cs Hw) as S.
  destruct (bank_send s from to cs) as [s'| |].
  - destruct S as (_ & P & Hc & _). split; [|discriminate]. split.
    + intros _. split; [apply has_pos_iff, P|exact Hc].
    + intros _. exists s'. reflexivity.
  - split; [|discriminate]. split.
    + intros [s' E]. discriminate.
    + intros [Hp Hc]. exfalso. destruct S as [P|[d Hd]].
      * apply has_pos_iff in Hp. congruence.
      * specialize (Hc d). lia.
  - exfalso. destruct S as [d [Hd _]]. specialize (Hn d). lia.
Qed.

Lemma P_send_fails s from to cs : bank_wf s ->
  (~ some_positive cs \/ exists d, bank_balance s from d < tot d cs) -> bank_send s from to cs = Err.
Proof.
  intros Hw H. unfold bank_send. pose proof (bank_burn_spec s from cs Hw) as S.
  destruct (bank_burn s from cs) as [s1| |]; [exfalso|reflexivity|contradiction].
  destruct S as (_ & P & Hc & _). destruct H as [H|[d Hd]].
  - apply not_pos_false in H. congruence.
  - specialize (Hc d). lia.
Qed.

Lemma P_send_exact s from to cs s' : bank_wf s -> from <> to -> bank_send s from to cs = Ok s' ->
  (forall d, tot d cs <= bank_balance s from d) /\
  (forall d, bank_balance s' from d = bank_balance s from d - tot d cs) /\
  (forall d, bank_balance s' to d = bank_balance s to d + tot d cs) /\
  (forall a d, a <> from -> a <> to -> bank_balance s' a d = bank_balance s a d).
Proof.
  intros Hw Hne E. pose proof (bank_send_spec s from to cs Hw) as S. rewrite E in S.
  destruct S as (_ & _ & Hc & Hb & _). split; [exact Hc|].
  assert (F1 : beqb from to = false).
  { destruct (beqb from to) eqn:X; [|reflexivity]. apply beqb_eq in X. contradiction. }
  assert (F2 : beqb to from = false) by (rewrite beqb_sym; exact F1).
  split; [|split].
  - intros d. rewrite Hb, F1, beqb_refl. lia.
  - intros d. rewrite Hb, F2, beqb_refl. lia.
  - intros a d H1 H2. rewrite Hb.
    replace (beqb a to) with false; [replace (beqb a from) with false; [lia|]|]; symmetry.
    + destruct (beqb a from) eqn:X; [|reflexivity]. apply beqb_eq in X. contradiction.
    + destruct (beqb a to) eqn:X; [|reflexivity]. apply beqb_eq in X. contradiction.
Qed.

Lemma P_self_send s a cs s' : bank_wf s -> bank_send s a a cs = Ok s' ->
  (forall d, tot d cs <= bank_balance s a d) /\
  (forall x d, bank_balance s' x d = bank_balance s x d) /\
  (forall d, bank_supply s' d = bank_supply s d).
Proof.
  intros Hw E. pose proof (bank_send_spec s a a cs Hw) as S. rewrite E in S.
  destruct S as (_ & _ & Hc & Hb & Hs). split; [exact Hc|]. split; [|exact Hs].
  intros x d. rewrite Hb. destruct (beqb x a) eqn:X; [|lia]. apply beqb_eq in X. subst x. specialize (Hc d). lia.
Qed.

Lemma P_send_conserves s from to cs s' d : bank_wf s -> bank_send s from to cs = Ok s' ->
  bank_supply s' d = bank_supply s d.
Proof. intros Hw E. pose proof (bank_send_spec s from to cs Hw) as S. rewrite E in S. apply S. Qed.

Lemma P_burn_ok_iff s from cs : bank_wf s ->
  ((exists s', bank_burn s from cs = Ok s') <->
   (some_positive cs /\ forall d, tot d cs <= bank_balance s from d)) /\
  bank_burn s from cs <> Panic.
Proof.
  intros Hw. pose proof (bank_burn_spec s from cs Hw) as S.
  destruct (bank_burn s from cs) as [s'| |]; [| |contradiction].
  - destruct S as (_ & P & Hc & _). split; [|discriminate]. split.
    + intros _. split; [apply has_pos_iff, P|exact Hc].
    + intros _. exists s'. reflexivity.
  - split; [|discriminate]. split.
    + intros [s' E]. discriminate.
    + intros [Hp Hc]. exfalso. destruct S as [P|[d Hd]].
      * apply has_pos_iff in Hp. congruence.
      * specialize (Hc d). lia.
Qed.

Lemma P_burn_exact s from cs s' : bank_wf s -> bank_burn s from cs = Ok s' ->
  (forall d, tot d cs <= bank_balance s from d) /\
  (forall d, bank_balance s' from d = bank_balance s from d - tot d cs) /\
  (forall a d, a <> from -> bank_balance s' a d = bank_balance s a d) /\
  (forall d, bank_supply s' d + tot d cs = bank_supply s d).
Proof.
  intros Hw E. pose proof (bank_burn_spec s from cs Hw) as S. rewrite E in S.
  destruct S as (_ & _ & Hc & Hb & Hs). split; [exact Hc|]. split; [|split; [|exact Hs]].
  - intros d. rewrite Hb, beqb_refl. reflexivity.
  - intros a d H1. rewrite Hb. destruct (beqb a from) eqn:X; [|reflexivity]. apply beqb_eq in X. contradiction.
Qed.

Lemma P_mint_ok_iff s to cs : bank_wf s -> no_overflow s to cs ->
  ((exists s', bank_mint s to cs = Ok s') <-> some_positive cs) /\ bank_mint s to cs <> Panic.
Proof.
  intros Hw Hn. pose proof (bank_mint_spec s to cs Hw) as S.
  destruct (bank_mint s to cs) as [s'| |].
  - destruct S as (_ & P & _). split; [|discriminate]. split.
    + intros _. apply has_pos_iff, P.
    + intros _. exists s'. reflexivity.
  - split; [|discriminate]. split.
    + intros [s' E]. discriminate.
    + intros Hp. apply has_pos_iff in Hp. congruence.
  - exfalso. destruct S as [d Hd]. specialize (Hn d). lia.
Qed.

Lemma P_mint_exact s to cs s' : bank_wf s -> bank_mint s to cs = Ok s' ->
  (forall d, bank_balance s' to d = bank_balance s to d + tot d cs) /\
  (forall a d, a <> to -> bank_balance s' a d = bank_balance s a d) /\
  (forall d, bank_supply s' d = bank_supply s d + tot d cs).
Proof.
  intros Hw E. pose proof (bank_mint_spec s to cs Hw) as S. rewrite E in S.
  destruct S as (_ & _ & Hb & Hs). split; [|split; [|exact Hs]].
  - intros d. rewrite Hb, beqb_refl. reflexivity.
  - intros a d H1. rewrite Hb. destruct (beqb a to) eqn:X; [|reflexivity]. apply beqb_eq in X. contradiction.
Qed.

Lemma P_queries_agree s : bank_wf s ->
  (forall a d, bank_balance s a d = amount_of d (bank_all s a)) /\
  (forall a d, bank_balance s a d = tot d (bank_all s a)) /\
  (forall a, wf_coins (bank_all s a) /\ strict_pos (bank_all s a) = true) /\
  (forall d, bank_supply s d = sum_balances s (keys s) d) /\
  (forall accts denoms, obs_consistent accts denoms (model_obs accts denoms s) = true).
Proof.
  intros Hw. split; [reflexivity|]. split; [intros a d; apply bank_balance_tot, Hw|]. split.
  - intros a. split; [apply bank_all_wf, Hw|apply strict_pos_wf, bank_all_wf, Hw].
  - split; [intros d; apply supply_is_sum, Hw|]. intros accts denoms. apply model_obs_consistent, Hw.
Qed.
