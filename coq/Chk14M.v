(* Chk14M.v — the oracle of Chk14.v accepts the model's own run (for ALL setups and histories within
   the arithmetic bounds): what connects "agrees with the model" to "satisfies the property".
   No pinned theorems here. *)
From Verif Require Import Base OMap Bank Dec Staking StakingInv Chk14 StakingHist Chk16 Chk15.
Local Open Scope N_scope.

(* ---------- reading the model's snapshot ---------- *)

Lemma smap_spec {A B} (f : A -> sres B) : forall l ys, smap f l = SOk ys -> Forall2 (fun x y => f x = SOk y) l ys.
Proof.
  induction l as [|x l IH]; intros ys H; cbn [smap] in H.
  - injection H as <-. constructor.
  - inv_bind H as y Hy. inv_bind H as r Hr. injection H as <-. constructor; [exact Hy|apply IH, Hr].
Qed.

Lemma zlook_forall2 {K A} (eqb : K -> K -> bool) (Heq : forall a b, eqb a b = true <-> a = b) (R : K -> A -> Prop) :
  forall ks vs, Forall2 R ks vs -> forall k, In k ks -> exists y, zlook eqb ks vs k = Some y /\ R k y.
Proof.
  induction 1 as [|x y ks vs Hxy HF IH]; intros k Hk; [destruct Hk|]. cbn [zlook].
  destruct (eqb k x) eqn:E.
  - apply Heq in E. subst x. exists y. split; [reflexivity|exact Hxy].
  - destruct Hk as [->|Hk]; [|apply IH, Hk]. assert (T : eqb k k = true) by (apply Heq; reflexivity). congruence.
Qed.

Lemma zlook_map {K A} (eqb : K -> K -> bool) (Heq : forall a b, eqb a b = true <-> a = b) (f : K -> A) :
  forall ks k, In k ks -> zlook eqb ks (map f ks) k = Some (f k).
Proof.
  induction ks as [|x ks IH]; intros k Hk; [destruct Hk|]. cbn [map zlook]. destruct (eqb k x) eqn:E.
  - apply Heq in E. subst x. reflexivity.
  - destruct Hk as [->|Hk]; [|apply IH, Hk]. assert (T : eqb k k = true) by (apply Heq; reflexivity). congruence.
Qed.

Lemma Forall2_length {A B} (R : A -> B -> Prop) l1 l2 : Forall2 R l1 l2 -> length l1 = length l2.
Proof. induction 1; cbn; congruence. Qed.

Record views (su : setup) (w : world) (S : snap) : Prop := mkViews {
  v_del : forall d v, In (d, v) (pairs su) ->
            exists x, q_delegation (params_of su) (w_now w) (w_st w) d v = SOk x /\
                      zlook peqb (pairs su) (sn_del S) (d, v) = Some x;
  v_rew : forall d v, In (d, v) (pairs su) ->
            exists x, q_rewards (params_of su) (w_now w) (w_st w) d v = SOk x /\
                      zlook peqb (pairs su) (sn_rew S) (d, v) = Some x;
  v_bal : forall a, In a (acct_ids su) -> sn_balance su S a = q_balance (w_st w) a;
  v_pool : sn_pool S = q_pool (w_st w);
  v_sup : sn_sup S = q_supply (w_st w);
  v_all : sn_all S = map (q_all_delegations (params_of su) (w_st w)) (su_dels su);
  v_xall : sn_xall S = map (fun a => other_coins (s_bank (w_st w)) (acct a)) (acct_ids su);
  v_xsup : sn_xsup S = map (other_supply (s_bank (w_st w))) (su_xdenoms su);
  v_len : length (sn_del S) = length (pairs su) /\ length (sn_rew S) = length (pairs su) /\
          length (sn_bal S) = length (su_accts su)
}.

Lemma model_snap_views su w S : model_snap su w = SOk S -> views su w S.
Proof.
  unfold model_snap. intros H. inv_bind H as del Hd. inv_bind H as rew Hr. injection H as <-.
  apply smap_spec in Hd. apply smap_spec in Hr.
  constructor; cbn [sn_del sn_rew sn_bal sn_pool sn_sup sn_all sn_xall sn_xsup].
  - intros d v Hi. destruct (zlook_forall2 peqb peqb_spec _ _ _ Hd (d, v) Hi) as (y & Z & Q). exists y. split; [exact Q|exact Z].
  - intros d v Hi. destruct (zlook_forall2 peqb peqb_spec _ _ _ Hr (d, v) Hi) as (y & Z & Q). exists y. split; [exact Q|exact Z].
  - intros a Hi. unfold sn_balance. cbn [sn_bal]. rewrite (zlook_map N.eqb Neqb_spec _ _ _ Hi). reflexivity.
  - reflexivity.
  - reflexivity.
  - reflexivity.
  - reflexivity.
  - reflexivity.
  - split; [symmetry; apply (Forall2_length _ _ _ Hd)|]. split; [symmetry; apply (Forall2_length _ _ _ Hr)|].
    unfold acct_ids. rewrite !map_length. reflexivity.
Qed.

Lemma q_delegation_amount P now s d v x : q_delegation P now s d v = SOk x ->
  match x with Some (a, _) => a = disp s d v /\ 0 < a | None => disp s d v = 0 end.
Proof.
  unfold q_delegation. destruct (get_val P v); [|discriminate]. destruct (get_vi v s); [|discriminate].
  intros H. inv_bind H as r Hr.
  assert (E : to_uint_floor (sh_stake match get_stake d v s with Some x0 => x0 | None => mkSh 0 0 end) = disp s d v).
  { unfold disp, stake_of. destruct (get_stake d v s); reflexivity. }
  rewrite E in H. destruct (disp s d v =? 0) eqn:Z; injection H as <-.
  - apply N.eqb_eq, Z.
  - apply N.eqb_neq in Z. split; [reflexivity|lia].
Qed.

Lemma view_amt su w S d v : views su w S -> In (d, v) (pairs su) -> sn_amt su S d v = disp (w_st w) d v.
Proof.
  intros V Hi. destruct (v_del _ _ _ V d v Hi) as (x & Q & Z). unfold sn_amt. rewrite Z.
  apply q_delegation_amount in Q. destruct x as [[a r]|]; [destruct Q as [-> _]; reflexivity|symmetry; exact Q].
Qed.

Lemma in_pairs su d v : In (d, v) (pairs su) <-> In d (su_dels su) /\ In v (map fst (su_vals su)).
Proof.
  unfold pairs. rewrite in_flat_map. split.
  - intros (d' & Hd & Hi). apply in_map_iff in Hi as (vc & E & Hv). injection E as -> <-.
    split; [exact Hd|]. apply in_map. exact Hv.
  - intros [Hd Hv]. exists d. split; [exact Hd|]. apply in_map_iff in Hv as (vc & <- & Hv). apply in_map_iff. exists vc. auto.
Qed.

Lemma known_val_In su v : known_val su v = true <-> In v (map fst (su_vals su)).
Proof.
  unfold known_val. pose proof (get_val_In (params_of su) v) as G. unfold get_val in G. cbn [p_vals params_of] in G.
  rewrite <- G. destruct (fget N.eqb v (su_vals su)); split; congruence.
Qed.
Lemma known_val_get su v : known_val su v = true <-> get_val (params_of su) v <> None.
Proof. unfold known_val, get_val. cbn [p_vals params_of]. destruct (fget N.eqb v (su_vals su)); split; congruence. Qed.

Lemma all_pairs_spec su f : all_pairs su f = true <-> forall d v, In (d, v) (pairs su) -> f d v = true.
Proof.
  unfold all_pairs. rewrite forallb_forall. split.
  - intros H d v Hi. apply (H (d, v) Hi).
  - intros H [d v] Hi. apply H, Hi.
Qed.
Lemma all_accts_spec su f : all_accts su f = true <-> forall a, In a (acct_ids su) -> f a = true.
Proof. unfold all_accts. apply forallb_forall. Qed.

(* ---------- equality tests are reflexive ---------- *)
Lemma pN_eqb_refl x : pN_eqb x x = true. Proof. unfold pN_eqb. rewrite !N.eqb_refl. reflexivity. Qed.
Lemma list_eqb_refl' {A} (e : A -> A -> bool) (H : forall a, e a a = true) l : list_eqb e l l = true.
Proof. induction l as [|x l IH]; cbn; [reflexivity|]. rewrite H, IH. reflexivity. Qed.
Lemma option_eqb_refl' {A} (e : A -> A -> bool) (H : forall a, e a a = true) o : option_eqb e o o = true.
Proof. destruct o; cbn; auto. Qed.
Lemma snap_eqb_refl x : snap_eqb x x = true.
Proof.
  unfold snap_eqb.
  assert (Hc : forall c : coin, coin_eqb c c = true) by (intros c; unfold coin_eqb; rewrite beqb_refl, N.eqb_refl; reflexivity).
  rewrite (list_eqb_refl' _ (option_eqb_refl' _ pN_eqb_refl)), (list_eqb_refl' _ (list_eqb_refl' _ pN_eqb_refl)),
          (list_eqb_refl' _ (option_eqb_refl' _ N.eqb_refl)), !(list_eqb_refl' _ N.eqb_refl), !N.eqb_refl,
          (list_eqb_refl' _ (list_eqb_refl' _ Hc)). reflexivity.
Qed.

(* ---------- clause 10: the model's queries agree with each other ---------- *)

Lemma rows_model su S s d : (forall v, In v (map fst (su_vals su)) -> sn_amt su S d v = disp s d v) ->
  pos_row (q_all_delegations (params_of su) s d) = all_row su S d.
Proof.
  unfold pos_row, q_all_delegations, all_row. cbn [p_vals params_of].
  induction (su_vals su) as [|vc l IH]; intros H; cbn [flat_map map]; [reflexivity|].
  rewrite filter_app, IH by (intros v Hv; apply H; right; exact Hv). f_equal.
  rewrite (H (fst vc)) by (left; reflexivity). unfold disp, stake_of.
  destruct (get_stake d (fst vc) s) as [sh|]; cbn [filter snd].
  - destruct (0 <? to_uint_floor (sh_stake sh)); reflexivity.
  - reflexivity.
Qed.

Lemma rows_ok_model su S s : forall ds, (forall d v, In d ds -> In v (map fst (su_vals su)) -> sn_amt su S d v = disp s d v) ->
  rows_ok su S ds (map (q_all_delegations (params_of su) s) ds) = true.
Proof.
  induction ds as [|d ds IH]; intros H; cbn [rows_ok map]; [reflexivity|].
  rewrite (rows_model su S s d) by (intros v Hv; apply H; [left; reflexivity|exact Hv]).
  rewrite (list_eqb_refl' _ pN_eqb_refl). cbn [andb]. apply IH. intros d' v Hd Hv. apply H; [right; exact Hd|exact Hv].
Qed.

Lemma queries_consistent_model su w S : views su w S -> queries_consistent su S = true.
Proof.
  intros V. unfold queries_consistent. destruct (v_len _ _ _ V) as (L1 & L2 & L3).
  assert (Sh : shape_ok su S = true).
  { unfold shape_ok. rewrite L1, L2, L3, (v_all _ _ _ V), map_length, !N.eqb_refl. reflexivity. }
  rewrite Sh. cbn [andb]. rewrite (v_all _ _ _ V).
  rewrite rows_ok_model.
  2:{ intros d v Hd Hv. apply (view_amt su w S d v V). apply in_pairs. split; assumption. }
  cbn [andb]. apply all_pairs_spec. intros d v Hi.
  destruct (v_del _ _ _ V d v Hi) as (x & Q & Z). rewrite Z. destruct x as [[a r]|]; [|reflexivity].
  destruct (v_rew _ _ _ V d v Hi) as (y & Qr & Zr). unfold sn_rw. rewrite Zr.
  pose proof (q_delegation_amount _ _ _ _ _ _ Q) as [Ea Pa].
  unfold q_delegation in Q. unfold q_rewards in Qr. destruct (get_val (params_of su) v) as [comm|]; [|discriminate].
  unfold disp, stake_of in Ea. destruct (get_stake d v (w_st w)) as [sh|]; [|subst a; cbn in Pa; lia].
  destruct (get_vi v (w_st w)) as [vi|]; [|discriminate].
  inv_bind Q as r' Hr'. rewrite Hr' in Qr. cbn [sbind] in Qr. injection Qr as <-.
  destruct (_ =? 0); [discriminate|]. injection Q as _ <-. cbn. apply N.eqb_refl.
Qed.

(* ---------- the C14 clause set ---------- *)

Definition c14f (fs : list fail) : list fail := filter (fun f : fail => mem (fst (fst f)) C14_clauses) fs.
Lemma c14f_app a b : c14f (a ++ b) = c14f a ++ c14f b. Proof. apply filter_app. Qed.
Lemma c14f_chk c b : b = true -> c14f (chk c b) = []. Proof. intros ->. reflexivity. Qed.
Lemma c14f_chk_out c b : mem c C14_clauses = false -> c14f (chk c b) = [].
Proof. intros H. unfold chk. destruct b; [reflexivity|]. cbn [c14f filter fst]. rewrite H. reflexivity. Qed.
Lemma c14f_chk_pairs_out su c f : mem c C14_clauses = false -> c14f (chk_pairs su c f) = [].
Proof.
  intros H. unfold chk_pairs. induction (pairs su) as [|k l IH]; cbn [flat_map]; [reflexivity|].
  rewrite c14f_app, IH, app_nil_r. destruct (f (fst k) (snd k)); [reflexivity|]. cbn [c14f filter fst]. rewrite H. reflexivity.
Qed.
Lemma c14f_reward_bounds su os A : c14f (reward_bounds su os A) = [].
Proof. unfold reward_bounds. rewrite c14f_app, !c14f_chk_pairs_out by reflexivity. reflexivity. Qed.
Lemma c14f_slash_clauses su B A os v p : c14f (slash_clauses su B A os v p) = [].
Proof.
  unfold slash_clauses, slash_never_increases, slash_frame, slash_lower, slash_upper, slash_rewards_kept, slash_total_removes.
  rewrite !c14f_app, !c14f_chk_pairs_out by reflexivity. rewrite c14f_chk_out by reflexivity. reflexivity.
Qed.
Lemma c14f_withdraw_clauses su os B A d v : c14f (withdraw_clauses su os B A d v) = [].
Proof.
  unfold withdraw_clauses. rewrite !c14f_app, c14f_chk_pairs_out by reflexivity.
  rewrite !c14f_chk_out by reflexivity. reflexivity.
Qed.

(* ---------- the simulation between the oracle's bookkeeping and the model's world ---------- *)

Record osim (su : setup) (os : ost) (w : world) : Prop := mkOsim {
  os_now : o_now os = w_now w;
  os_q : o_q os = s_queue (w_st w);
  os_w : forall d, o_waddr os d = withdraw_addr (w_st w) d;
  os_win : forall d, In d (su_dels su) -> In (withdraw_addr (w_st w) d) (acct_ids su)
}.

(* the operations of a case name observed delegators; withdraw addresses are accounts of the scenario *)
Definition scoped (su : setup) (o : op) : Prop :=
  match o with
  | Delegate d _ _ _ | Undelegate d _ _ _ | Redelegate d _ _ _ _ | Withdraw d _ => In d (su_dels su)
  | SetWithdraw d (Some w) => In d (su_dels su) /\ In w (acct_ids su)
  | SetWithdraw d None => In d (su_dels su)
  | _ => True
  end.
Definition setup_ok (su : setup) : Prop := incl (su_dels su) (acct_ids su).

Section Frames.
  Variable su : setup.
  Variables w w' : world.
  Variables B A : snap.
  Hypothesis VB : views su w B.
  Hypothesis VA : views su w' A.

  Lemma amts_same_except_model ex :
    (forall d v, In (d, v) (pairs su) -> ex d v = true \/ disp (w_st w') d v = disp (w_st w) d v) ->
    amts_same_except su B A ex = true.
  Proof.
    intros H. unfold amts_same_except. apply all_pairs_spec. intros d v Hi. destruct (H d v Hi) as [E|E].
    - rewrite E. reflexivity.
    - unfold amtA, amtB. rewrite (view_amt _ _ _ _ _ VA Hi), (view_amt _ _ _ _ _ VB Hi), E, N.eqb_refl. apply orb_true_r.
  Qed.
  Lemma amts_same_model : (forall d v, disp (w_st w') d v = disp (w_st w) d v) -> amts_same su B A = true.
  Proof. intros H. apply amts_same_except_model. intros d v _. right. apply H. Qed.
  Lemma bals_same_except_model ex :
    (forall a, In a (acct_ids su) -> ex a = true \/ q_balance (w_st w') a = q_balance (w_st w) a) ->
    bals_same_except su B A ex = true.
  Proof.
    intros H. unfold bals_same_except. apply all_accts_spec. intros a Hi. destruct (H a Hi) as [E|E].
    - rewrite E. reflexivity.
    - unfold balA, balB. rewrite (v_bal _ _ _ VA a Hi), (v_bal _ _ _ VB a Hi), E, N.eqb_refl. apply orb_true_r.
  Qed.
  Lemma bank_same_model : (forall a, q_balance (w_st w') a = q_balance (w_st w) a) ->
    q_pool (w_st w') = q_pool (w_st w) -> q_supply (w_st w') = q_supply (w_st w) -> bank_same su B A = true.
  Proof.
    intros H1 H2 H3. unfold bank_same, bals_same. rewrite bals_same_except_model by (intros a _; right; apply H1).
    rewrite (v_pool _ _ _ VA), (v_pool _ _ _ VB), (v_sup _ _ _ VA), (v_sup _ _ _ VB), H2, H3, !N.eqb_refl. reflexivity.
  Qed.
End Frames.

Lemma disp_of_stake s s' d v : stake_of s' d v = stake_of s d v -> disp s' d v = disp s d v.
Proof. unfold disp. intros ->. reflexivity. Qed.

Lemma is_pair_neq d v d' v' : is_pair d v d' v' = false -> (d', v') <> (d, v).
Proof. unfold is_pair. intros H C. injection C as -> ->. rewrite !N.eqb_refl in H. discriminate. Qed.

Lemma delegate_ok_model su os w B d v a b w' A :
  setup_ok su -> In d (su_dels su) -> winv su w -> osim su os w -> views su w B ->
  step su w (Delegate d v a b) = SOk w' -> views su w' A ->
  c14f (fst (ostep su os B (Delegate d v a b) OOk A)) = [] /\ osim su (snd (ostep su os B (Delegate d v a b) OOk A)) w'.
Proof.
  intros Hsu Hd I Sim VB H VA. cbn [step] in H. inv_bind H as s' Hs. injection H as <-.
  pose proof (delegate_exact_lemma _ _ _ _ _ _ _ _ (inv_bank _ _ _ I) Hs) as L.
  destruct L as (Pa & -> & Kv & Le & _ & Dd & So & Bd & Bp & Bo & Su & _ & _ & Q & W & _).
  assert (Hda : In d (acct_ids su)) by (apply Hsu, Hd).
  assert (Kv' : known_val su v = true) by (apply known_val_get, Kv).
  assert (Hp : In (d, v) (pairs su)) by (apply in_pairs; split; [exact Hd|apply known_val_In, Kv']).
  assert (EbB : sn_balance su B d = q_balance (w_st w) d) by apply (v_bal _ _ _ VB d Hda).
  cbn [ostep fst snd]. split.
  - rewrite !c14f_app, c14f_reward_bounds, app_nil_r.
    rewrite c14f_chk, c14f_chk, c14f_chk; [reflexivity| | |].
    + (* clause 5 *)
      unfold delegate_exact_ok, balB, balA, amtA, amtB. rewrite Kv', EbB.
      rewrite (v_bal _ _ _ VA d Hda), (view_amt _ _ _ _ _ VA Hp), (view_amt _ _ _ _ _ VB Hp).
      rewrite (v_pool _ _ _ VA), (v_pool _ _ _ VB), (v_sup _ _ _ VA), (v_sup _ _ _ VB). cbn [w_st].
      rewrite Dd, Bd, Bp, Su, !N.eqb_refl.
      replace (0 <? a) with true by (symmetry; apply N.ltb_lt, Pa).
      replace (a <=? q_balance (w_st w) d) with true by (symmetry; apply N.leb_le, Le).
      replace (q_balance (w_st w) d - a + a =? q_balance (w_st w) d) with true by (symmetry; apply N.eqb_eq; lia).
      rewrite (amts_same_except_model su w (mkW (w_now w) s') B A VB VA).
      2:{ intros d' v' _. destruct (is_pair d v d' v') eqn:E; [left; reflexivity|right].
          apply disp_of_stake, So, is_pair_neq, E. }
      rewrite (bals_same_except_model su w (mkW (w_now w) s') B A VB VA).
      2:{ intros x _. destruct (d =? x) eqn:E; [left; reflexivity|right]. apply Bo. intros C. subst x. rewrite N.eqb_refl in E. discriminate. }
      reflexivity.
    + apply (queries_consistent_model su _ A VA).
    + (* clause 3 *)
      unfold must_fail, balB. rewrite Kv', EbB.
      replace (a =? 0) with false by (symmetry; apply N.eqb_neq; lia).
      replace (q_balance (w_st w) d <? a) with false by (symmetry; apply N.ltb_ge, Le). reflexivity.
  - destruct Sim as [S1 S2 S3 S4]. constructor; cbn [o_now o_q o_w w_now w_st].
    + exact S1.
    + rewrite Q. exact S2.
    + intros x. unfold o_waddr. cbn [o_w]. unfold withdraw_addr. rewrite W. apply S3.
    + intros x Hx. unfold withdraw_addr. rewrite W. apply S4, Hx.
Qed.

Lemma osim_same su os w w' (ledf : list ((N * N) * led)) frac :
  osim su os w -> w_now w' = w_now w -> s_queue (w_st w') = s_queue (w_st w) -> s_waddr (w_st w') = s_waddr (w_st w) ->
  osim su (mkO (o_now os) (o_q os) (o_w os) frac ledf) w'.
Proof.
  intros [S1 S2 S3 S4] E1 E2 E3. constructor; cbn [o_now o_q o_w].
  - congruence.
  - congruence.
  - intros x. unfold withdraw_addr. rewrite E3. apply S3.
  - intros x Hx. unfold withdraw_addr. rewrite E3. apply S4, Hx.
Qed.

Lemma undelegate_ok_model su os w B d v a b w' A :
  setup_ok su -> In d (su_dels su) -> winv su w -> osim su os w -> views su w B ->
  step su w (Undelegate d v a b) = SOk w' -> views su w' A ->
  c14f (fst (ostep su os B (Undelegate d v a b) OOk A)) = [] /\ osim su (snd (ostep su os B (Undelegate d v a b) OOk A)) w'.
Proof.
  intros Hsu Hd I Sim VB H VA. cbn [step] in H. inv_bind H as s' Hs. injection H as <-.
  pose proof (undelegate_lemma _ _ _ _ _ _ _ _ Hs) as L.
  destruct L as (Pa & -> & Kv & _ & Le & _ & _ & Dd & So & Q & Bk & W & _ & _).
  assert (Kv' : known_val su v = true) by (apply known_val_get, Kv).
  assert (Hp : In (d, v) (pairs su)) by (apply in_pairs; split; [exact Hd|apply known_val_In, Kv']).
  cbn [ostep fst snd]. split.
  - rewrite !c14f_app, c14f_reward_bounds, app_nil_r.
    rewrite c14f_chk, c14f_chk, c14f_chk; [reflexivity| | |].
    + unfold undelegate_exact_ok, amtA, amtB. rewrite Kv'.
      rewrite (view_amt _ _ _ _ _ VA Hp), (view_amt _ _ _ _ _ VB Hp). cbn [w_st]. rewrite Dd.
      replace (0 <? a) with true by (symmetry; apply N.ltb_lt, Pa).
      replace (a <=? disp (w_st w) d v) with true by (symmetry; apply N.leb_le, Le).
      replace (disp (w_st w) d v - a + a =? disp (w_st w) d v) with true by (symmetry; apply N.eqb_eq; lia).
      rewrite (amts_same_except_model su w (mkW (w_now w) s') B A VB VA).
      2:{ intros d' v' _. destruct (is_pair d v d' v') eqn:E; [left; reflexivity|right].
          apply disp_of_stake, So, is_pair_neq, E. }
      rewrite (bank_same_model su w (mkW (w_now w) s') B A VB VA); cbn [w_st]; unfold q_balance, q_pool, q_supply; rewrite ?Bk; reflexivity.
    + apply (queries_consistent_model su _ A VA).
    + unfold must_fail, amtB. rewrite Kv', (view_amt _ _ _ _ _ VB Hp).
      replace (a =? 0) with false by (symmetry; apply N.eqb_neq; lia).
      replace (disp (w_st w) d v <? a) with false by (symmetry; apply N.ltb_ge, Le). reflexivity.
  - destruct Sim as [S1 S2 S3 S4]. constructor; cbn [o_now o_q o_w w_now w_st].
    + exact S1.
    + rewrite Q, S1, S2. reflexivity.
    + intros x. unfold o_waddr. cbn [o_w]. unfold withdraw_addr. rewrite W. apply S3.
    + intros x Hx. unfold withdraw_addr. rewrite W. apply S4, Hx.
Qed.

Lemma redelegate_ok_model su os w B d v1 v2 a b w' A :
  setup_ok su -> In d (su_dels su) -> winv su w -> osim su os w -> views su w B ->
  step su w (Redelegate d v1 v2 a b) = SOk w' -> views su w' A ->
  c14f (fst (ostep su os B (Redelegate d v1 v2 a b) OOk A)) = [] /\
  osim su (snd (ostep su os B (Redelegate d v1 v2 a b) OOk A)) w'.
Proof.
  intros Hsu Hd I Sim VB H VA. cbn [step] in H. inv_bind H as s' Hs. injection H as <-.
  pose proof (redelegate_lemma _ _ _ _ _ _ _ _ _ Hs) as L.
  destruct L as (-> & K1 & K2 & Ls & Le & St & _ & Q & Bk & W).
  assert (K1' : known_val su v1 = true) by (apply known_val_get, K1).
  assert (K2' : known_val su v2 = true) by (apply known_val_get, K2).
  assert (Hp1 : In (d, v1) (pairs su)) by (apply in_pairs; split; [exact Hd|apply known_val_In, K1']).
  assert (Hp2 : In (d, v2) (pairs su)) by (apply in_pairs; split; [exact Hd|apply known_val_In, K2']).
  (* displayed values from the additive form of the shares *)
  assert (Dsame : forall d' v', (d', v') <> (d, v1) -> (d', v') <> (d, v2) -> disp s' d' v' = disp (w_st w) d' v').
  { intros d' v' N1 N2. apply disp_of_stake. specialize (St d' v'). rewrite !peqb_false in St by assumption. lia. }
  cbn [ostep fst snd]. split.
  - rewrite !c14f_app, c14f_reward_bounds, app_nil_r.
    rewrite c14f_chk, c14f_chk, c14f_chk; [reflexivity| | |].
    + unfold redelegate_exact_ok, amtA, amtB. rewrite K1', K2'.
      rewrite (view_amt _ _ _ _ _ VB Hp1).
      replace (a <=? disp (w_st w) d v1) with true by (symmetry; apply N.leb_le, Le). cbn [andb].
      rewrite (bank_same_model su w (mkW (w_now w) s') B A VB VA); cbn [w_st]; unfold q_balance, q_pool, q_supply; rewrite ?Bk; try reflexivity.
      rewrite andb_true_r. destruct (v1 =? v2) eqn:Ev.
      * apply N.eqb_eq in Ev. subst v2. apply (amts_same_model su w (mkW (w_now w) s') B A VB VA). cbn [w_st].
        intros d' v'. apply disp_of_stake. specialize (St d' v'). lia.
      * apply N.eqb_neq in Ev.
        rewrite (view_amt _ _ _ _ _ VA Hp1), (view_amt _ _ _ _ _ VA Hp2), (view_amt _ _ _ _ _ VB Hp2). cbn [w_st].
        assert (E1 : stake_of s' d v1 = stake_of (w_st w) d v1 - a * D18).
        { specialize (St d v1). rewrite peqb_refl, peqb_false in St by congruence. lia. }
        assert (E2 : stake_of s' d v2 = stake_of (w_st w) d v2 + a * D18).
        { specialize (St d v2). rewrite peqb_refl, peqb_false in St by congruence. lia. }
        unfold disp at 1 3. rewrite E1, E2, floor_sub_whole, floor_add_whole by exact Ls. fold (disp (w_st w) d v1). fold (disp (w_st w) d v2).
        replace (disp (w_st w) d v1 - a + a =? disp (w_st w) d v1) with true by (symmetry; apply N.eqb_eq; lia).
        rewrite N.eqb_refl. cbn [andb].
        apply (amts_same_except_model su w (mkW (w_now w) s') B A VB VA). cbn [w_st].
        intros d' v' _. destruct (is_pair d v1 d' v') eqn:Ea; [left; reflexivity|].
        destruct (is_pair d v2 d' v') eqn:Eb; [left; reflexivity|]. right.
        apply Dsame; apply is_pair_neq; assumption.
    + apply (queries_consistent_model su _ A VA).
    + unfold must_fail, amtB. rewrite K1', K2', (view_amt _ _ _ _ _ VB Hp1).
      replace (disp (w_st w) d v1 <? a) with false by (symmetry; apply N.ltb_ge, Le). reflexivity.
  - apply (osim_same su os w); [exact Sim|reflexivity|exact Q|exact W].
Qed.

Lemma stake_of_same_stakes s s' : s_stakes s' = s_stakes s -> forall d v, disp s' d v = disp s d v.
Proof. intros E d v. unfold disp, stake_of, get_stake. rewrite E. reflexivity. Qed.

Lemma withdraw_ok_model su os w B d v w' A :
  setup_ok su -> In d (su_dels su) -> winv su w -> osim su os w -> views su w B ->
  step su w (Withdraw d v) = SOk w' -> views su w' A ->
  c14f (fst (ostep su os B (Withdraw d v) OOk A)) = [] /\ osim su (snd (ostep su os B (Withdraw d v) OOk A)) w'.
Proof.
  intros Hsu Hd I Sim VB H VA. cbn [step] in H. inv_bind H as s' Hs. injection H as <-.
  apply withdraw_lemma in Hs as (s1 & sh & _ & _ & Hs); [|apply (inv_bank _ _ _ I)]. cbn zeta in Hs.
  destruct Hs as (Pr & _ & _ & _ & St & _ & Q & W & _ & Bw & Bo & Bp & Su).
  set (r := to_uint_floor (sh_rew sh)) in *.
  assert (Ew : o_waddr os d = withdraw_addr (w_st w) d) by apply (os_w _ _ _ Sim).
  assert (Hw : In (withdraw_addr (w_st w) d) (acct_ids su)) by apply (os_win _ _ _ Sim d Hd).
  cbn [ostep fst snd]. split.
  - rewrite !c14f_app, c14f_reward_bounds, c14f_withdraw_clauses, !app_nil_r.
    rewrite c14f_chk, c14f_chk, c14f_chk; [reflexivity| | |].
    + rewrite Ew.
      rewrite (amts_same_model su w (mkW (w_now w) s') B A VB VA) by (intros d' v'; apply disp_of_stake, St).
      rewrite (bals_same_except_model su w (mkW (w_now w) s') B A VB VA).
      2:{ intros x _. destruct (withdraw_addr (w_st w) d =? x) eqn:E; [left; reflexivity|right]. apply Bo.
          intros C. subst x. rewrite N.eqb_refl in E. discriminate. }
      rewrite (v_pool _ _ _ VA), (v_pool _ _ _ VB), (v_sup _ _ _ VA), (v_sup _ _ _ VB), (v_bal _ _ _ VA _ Hw), (v_bal _ _ _ VB _ Hw).
      cbn [w_st]. rewrite Bp, Su, Bw, N.eqb_refl.
      replace (q_supply (w_st w) <=? q_supply (w_st w) + r) with true by (symmetry; apply N.leb_le; lia).
      replace (q_supply (w_st w) + r - q_supply (w_st w)) with r by lia. rewrite N.eqb_refl. reflexivity.
    + apply (queries_consistent_model su _ A VA).
    + reflexivity.
  - apply (osim_same su os w); [exact Sim|reflexivity|exact Q|exact W].
Qed.

Lemma set_withdraw_ok_model su os w B d wd w' A :
  setup_ok su -> scoped su (SetWithdraw d wd) -> winv su w -> osim su os w -> views su w B ->
  step su w (SetWithdraw d wd) = SOk w' -> views su w' A ->
  c14f (fst (ostep su os B (SetWithdraw d wd) OOk A)) = [] /\ osim su (snd (ostep su os B (SetWithdraw d wd) OOk A)) w'.
Proof.
  intros Hsu Hsc I Sim VB H VA. cbn [step] in H. inv_bind H as s' Hs. injection H as <-.
  destruct wd as [w1|]; [|discriminate]. destruct Hsc as [Hd Hw1].
  pose proof (set_withdraw_lemma _ _ _ _ Hs) as (E1 & E2 & Es & Ev & Eq & Eb).
  cbn [ostep fst snd]. split.
  - rewrite !c14f_app, c14f_reward_bounds, app_nil_r.
    rewrite c14f_chk, c14f_chk, c14f_chk; [reflexivity| | |].
    + rewrite (amts_same_model su w (mkW (w_now w) s') B A VB VA) by (apply stake_of_same_stakes, Es).
      rewrite (bank_same_model su w (mkW (w_now w) s') B A VB VA); cbn [w_st]; unfold q_balance, q_pool, q_supply; rewrite ?Eb; reflexivity.
    + apply (queries_consistent_model su _ A VA).
    + reflexivity.
  - destruct Sim as [S1 S2 S3 S4]. constructor; cbn [o_now o_q o_w w_now w_st].
    + exact S1.
    + rewrite Eq. exact S2.
    + intros x. destruct (N.eq_dec x d) as [->|Hn].
      * rewrite E1. unfold o_waddr. cbn [o_w]. destruct (d =? w1) eqn:E.
        -- apply N.eqb_eq in E. rewrite (fget_fdel N.eqb Neqb_spec), N.eqb_refl. exact E.
        -- rewrite (fget_fset N.eqb Neqb_spec), N.eqb_refl. reflexivity.
      * rewrite (E2 x Hn), <- S3. unfold o_waddr. cbn [o_w]. apply N.eqb_neq in Hn. destruct (d =? w1).
        -- rewrite (fget_fdel N.eqb Neqb_spec), Hn. reflexivity.
        -- rewrite (fget_fset N.eqb Neqb_spec), Hn. reflexivity.
    + intros x Hx. destruct (N.eq_dec x d) as [->|Hn]; [rewrite E1; exact Hw1|rewrite (E2 x Hn); apply S4, Hx].
Qed.

Lemma slash_ok_model su os w B v p w' A :
  winv su w -> osim su os w -> views su w B ->
  step su w (Slash v p) = SOk w' -> views su w' A ->
  c14f (fst (ostep su os B (Slash v p) OOk A)) = [] /\ osim su (snd (ostep su os B (Slash v p) OOk A)) w'.
Proof.
  intros I Sim VB H VA. cbn [step] in H. inv_bind H as s' Hs. injection H as <-.
  apply slash_facts in Hs as (Lp & Kv & Bk & W & Q & Vo & So & _ & _ & _); [|apply (inv_stakers _ _ _ I)].
  cbn [ostep fst snd]. split.
  - rewrite !c14f_app, c14f_reward_bounds, c14f_slash_clauses, !app_nil_r.
    rewrite (c14f_chk_out 20) by reflexivity. cbn [app].
    rewrite c14f_chk, c14f_chk, c14f_chk; [reflexivity| | |].
    + rewrite (bank_same_model su w (mkW (w_now w) s') B A VB VA); cbn [w_st]; unfold q_balance, q_pool, q_supply; rewrite ?Bk; try reflexivity.
      apply (amts_same_except_model su w (mkW (w_now w) s') B A VB VA). cbn [w_st].
      intros d' v' _. destruct (v' =? v) eqn:E; [left; reflexivity|right]. apply N.eqb_neq in E.
      unfold disp, stake_of. rewrite (So d' v' E). reflexivity.
    + apply (queries_consistent_model su _ A VA).
    + reflexivity.
  - destruct Sim as [S1 S2 S3 S4]. constructor; cbn [o_now o_q o_w w_now w_st].
    + exact S1.
    + rewrite Q, S2. reflexivity.
    + intros x. unfold o_waddr. cbn [o_w]. unfold withdraw_addr. rewrite W. apply S3.
    + intros x Hx. unfold withdraw_addr. rewrite W. apply S4, Hx.
Qed.

Lemma advance_ok_model su os w B dt w' A :
  winv su w -> osim su os w -> views su w B ->
  step su w (Advance dt) = SOk w' -> views su w' A ->
  c14f (fst (ostep su os B (Advance dt) OOk A)) = [] /\ osim su (snd (ostep su os B (Advance dt) OOk A)) w'.
Proof.
  intros I Sim VB H VA. apply advance_pays_due in H; [|exact I]. cbn zeta in H.
  destruct H as (En & Q & Bl & Pl & Su & Dp & _ & W). destruct Sim as [S1 S2 S3 S4].
  cbn [ostep fst snd]. rewrite S1, S2. split.
  - rewrite !c14f_app, c14f_reward_bounds, app_nil_r.
    rewrite c14f_chk, c14f_chk; [reflexivity| |].
    + unfold payout_ok. rewrite ?S1, ?S2.
      rewrite (amts_same_model su w w' B A VB VA) by exact Dp.
      rewrite (v_pool _ _ _ VA), (v_pool _ _ _ VB), (v_sup _ _ _ VA), (v_sup _ _ _ VB), Pl, Su, !N.eqb_refl.
      rewrite !andb_true_r. apply all_accts_spec. intros a Ha.
      rewrite (v_bal _ _ _ VA a Ha), (v_bal _ _ _ VB a Ha), Bl. apply N.eqb_refl.
    + apply (queries_consistent_model su _ A VA).
  - constructor; cbn [o_now o_q o_w].
    + symmetry. exact En.
    + symmetry. exact Q.
    + intros x. unfold o_waddr. cbn [o_w]. unfold withdraw_addr. rewrite W. apply S3.
    + intros x Hx. unfold withdraw_addr. rewrite W. apply S4, Hx.
Qed.

(* ---------- a failed operation ---------- *)

Lemma vstake_le_sum s v : forall vals, In v (map fst vals) -> vstake s v <= sum_vstake s vals.
Proof.
  induction vals as [|vc r IH]; intros H; [destruct H|]. cbn [sum_vstake map fst In] in *.
  destruct H as [<-|H]; [lia|]. specialize (IH H). lia.
Qed.

Lemma delegate_valid_not_err P now s d v a : inv P now s ->
  0 < a -> get_val P v <> None -> a <= q_balance s d -> q_pool s + a < U128 ->
  exec_delegate P now s d v a true <> SErr.
Proof.
  intros I Pa Kv Le Hb. unfold exec_delegate. replace (a =? 0) with false by (symmetry; apply N.eqb_neq; lia). cbn [negb].
  assert (Lv : vstake s v + a < U128).
  { pose proof (vstake_le_sum s v (p_vals P) (proj1 (get_val_In P v) Kv)). pose proof (inv_solvent _ _ _ I). lia. }
  apply sbind_not_err.
  - unfold update_stake. apply sbind_not_err.
    + intros E. apply update_rewards_err in E. pose proof (proj2 (inv_known _ _ _ I v) Kv). destruct E; contradiction.
    + intros s1 H1. pose proof (update_rewards_vstake _ _ _ _ _ H1 v) as Ev. unfold vstake in Ev.
      apply update_rewards_spec in H1 as (vi & comm & Gv & _ & _ & _ & Vv). rewrite Vv in *. rewrite Gv in Ev. cbn [vi_stake] in *.
      apply sbind_not_err; [destruct (get_stake d v s1); discriminate|]. intros sh _.
      apply sbind_not_err; [apply dec_of_uint_ne|]. intros ad _.
      apply sbind_not_err.
      * apply sbind_not_err; [apply dec_add_ne|]. intros y _.
        unfold vstake in Lv. rewrite Gv in Lv.
        replace (U128 <=? vi_stake vi + a) with false by (symmetry; apply N.leb_gt; lia). discriminate.
      * intros [st' vs'] _. destruct (st' =? 0); discriminate.
  - intros s1 H1. apply update_stake_spec in H1 as (vi & comm & st' & ns & _ & _ & _ & _ & Bk & _).
    apply sbind_not_err; [|discriminate]. rewrite Bk.
    pose proof (send_tok_not_err (s_bank s) (acct d) pool a (inv_bank _ _ _ I) Pa Le) as S.
    destruct (bank_send _ _ _ _); cbn; try discriminate. exfalso. apply S. reflexivity.
Qed.

Lemma err_model su os w B o : setup_ok su -> scoped su o -> winv su w -> views su w B -> step su w o = SErr ->
  is_advance o = false /\ c14f (fst (ostep su os B o OErr B)) = [] /\ snd (ostep su os B o OErr B) = os.
Proof.
  intros Hsu Hsc I VB H.
  assert (Ha : is_advance o = false).
  { destruct o; try reflexivity. exfalso. revert H. apply advance_ne, I. }
  split; [exact Ha|]. split; [|reflexivity]. cbn [ostep fst].
  rewrite !c14f_app. rewrite (c14f_chk 2) by apply snap_eqb_refl. rewrite (c14f_chk 1) by (rewrite Ha; reflexivity).
  cbn [app]. rewrite c14f_chk.
  - destruct o; try reflexivity. apply c14f_chk_out. reflexivity.
  - destruct o as [d v a b| | | | | |]; try reflexivity. cbn [must_succeed].
    destruct ((0 <? a) && b && known_val su v && (a <=? balB su B d) && (sn_pool B + a <? U128)) eqn:E; [|reflexivity].
    exfalso. rewrite !andb_true_iff in E. destruct E as ((((E1 & ->) & E3) & E4) & E5).
    apply N.ltb_lt in E1, E5. apply N.leb_le in E4. apply known_val_get in E3.
    cbn [scoped] in Hsc. unfold balB in E4. rewrite (v_bal _ _ _ VB d (Hsu d Hsc)) in E4. rewrite (v_pool _ _ _ VB) in E5.
    cbn [step] in H. destruct (exec_delegate (params_of su) (w_now w) (w_st w) d v a true) eqn:X; try discriminate.
    revert X. apply delegate_valid_not_err; assumption.
Qed.

(* ---------- all histories ---------- *)

Definition clean (run : list (oc * snap * world)) : Prop :=
  Forall (fun x : oc * snap * world => fst (fst x) = OOk \/ fst (fst x) = OErr) run.

Lemma filter_in_set fs k : filter (in_set C14_clauses) (map (fun f : fail => (k, f)) fs) = map (fun f => (k, f)) (c14f fs).
Proof.
  induction fs as [|f fs IH]; cbn [map filter c14f]; [reflexivity|]. unfold in_set at 1. cbn [fst snd].
  destruct (mem (fst (fst f)) C14_clauses); cbn [map]; rewrite IH; reflexivity.
Qed.

Lemma step_ok_model su os w B o w' A :
  setup_ok su -> scoped su o -> winv su w -> osim su os w -> views su w B -> step su w o = SOk w' -> views su w' A ->
  c14f (fst (ostep su os B o OOk A)) = [] /\ osim su (snd (ostep su os B o OOk A)) w'.
Proof.
  intros Hsu Hsc I Sim VB H VA. destruct o as [d v a b|d v a b|d v1 v2 a b|d v|d wd|v p|dt]; cbn [scoped] in Hsc.
  - eapply delegate_ok_model; eassumption.
  - eapply undelegate_ok_model; eassumption.
  - eapply redelegate_ok_model; eassumption.
  - eapply withdraw_ok_model; eassumption.
  - eapply set_withdraw_ok_model; eassumption.
  - eapply slash_ok_model; eassumption.
  - eapply advance_ok_model; eassumption.
Qed.

Lemma oracle_from_model su : forall ops os w B k,
  setup_ok su -> Forall (scoped su) ops -> winv su w -> osim su os w -> views su w B ->
  clean (model_run su w B ops) ->
  filter (in_set C14_clauses) (oracle_from su os B ops (map fst (model_run su w B ops)) k) = [].
Proof.
  induction ops as [|o ops IH]; intros os w B k Hsu Hsc I Sim VB Hc; [reflexivity|].
  inversion Hsc as [|? ? Ho Hsc']; subst. cbn [model_run] in *.
  destruct (step su w o) as [w'| | |] eqn:S.
  - destruct (model_snap su w') as [A| | |] eqn:MA;
      try (inversion Hc as [|? ? Hx _]; subst; cbn in Hx; destruct Hx; discriminate).
    inversion Hc as [|? ? _ Hc']; subst. cbn [map fst oracle_from].
    pose proof (model_snap_views _ _ _ MA) as VA.
    destruct (step_ok_model su os w B o w' A Hsu Ho I Sim VB S VA) as [F Sim'].
    destruct (ostep su os B o OOk A) as [fs os'] eqn:E. cbn [fst snd] in F, Sim'.
    rewrite filter_app, filter_in_set, F. cbn [map app].
    apply IH; try assumption. eapply step_inv; eassumption.
  - destruct (err_model su os w B o Hsu Ho I VB S) as (Ha & F & Eo). rewrite Ha in *.
    inversion Hc as [|? ? _ Hc']; subst. cbn [map fst oracle_from].
    destruct (ostep su os B o OErr B) as [fs os'] eqn:E. cbn [fst snd] in F, Eo. subst os'.
    rewrite filter_app, filter_in_set, F. cbn [map app]. apply IH; assumption.
  - inversion Hc as [|? ? Hx _]; subst. cbn in Hx. destruct Hx; discriminate.
  - inversion Hc as [|? ? Hx _]; subst. cbn in Hx. destruct Hx; discriminate.
Qed.

(* ---------- genesis ---------- *)

Lemma tot_genesis bal : tot TOKEN ((OTHER, 1000000) :: (if bal =? 0 then [] else tok bal)) = bal.
Proof.
  cbn [tot]. change (beqb TOKEN OTHER) with false. destruct (bal =? 0) eqn:E.
  - apply N.eqb_eq in E. subst. reflexivity.
  - rewrite tot_tok. lia.
Qed.

Lemma init_bank_spec : forall accts b b', NoDup (map fst accts) -> bank_wf b ->
  (forall a, In a (map fst accts) -> bank_balance b (acct a) TOKEN = 0) ->
  init_bank accts b = SOk b' ->
  (forall a bal, In (a, bal) accts -> bank_balance b' (acct a) TOKEN = bal) /\
  bank_supply b' TOKEN = bank_supply b TOKEN + fold_right N.add 0 (map snd accts) /\
  (forall x, (forall a, In a (map fst accts) -> x <> acct a) -> bank_balance b' x TOKEN = bank_balance b x TOKEN).
Proof.
  induction accts as [|[a bal] r IH]; intros b b' Hnd Hw Hz H; cbn [init_bank] in H.
  - injection H as <-. split; [intros a bal []|]. split; [cbn; lia|reflexivity].
  - cbn [map fst] in Hnd. inversion Hnd as [|? ? Hni Hnd']; subst.
    inv_bind H as b1 H1. apply of_bank_ok in H1.
    pose proof (bank_init_spec b (acct a) ((OTHER, 1000000) :: (if bal =? 0 then [] else tok bal)) Hw) as S. rewrite H1 in S.
    destruct S as (Hw1 & Hb & Hs). specialize (Hs TOKEN). rewrite tot_genesis in Hs.
    rewrite (Hz a (or_introl eq_refl)) in Hs.
    assert (Hz1 : forall x, In x (map fst r) -> bank_balance b1 (acct x) TOKEN = 0).
    { intros x Hx. rewrite Hb. destruct (beqb (acct x) (acct a)) eqn:E.
      - apply beqb_eq, acct_inj in E. subst x. contradiction.
      - apply Hz. right. exact Hx. }
    destruct (IH b1 b' Hnd' Hw1 Hz1 H) as (I1 & I2 & I3).
    split; [|split].
    + intros x bx [E|Hi].
      * injection E as -> ->. rewrite I3.
        -- rewrite Hb, beqb_refl. apply tot_genesis.
        -- intros y Hy C. apply acct_inj in C. subst y. contradiction.
      * apply I1, Hi.
    + rewrite I2. cbn [map snd fold_right]. lia.
    + intros x Hx. rewrite I3 by (intros y Hy; apply Hx; right; exact Hy). rewrite Hb.
      destruct (beqb x (acct a)) eqn:E; [|reflexivity]. apply beqb_eq in E. exfalso. apply (Hx a); [left; reflexivity|exact E].
Qed.

Lemma bank_empty_zero x d : bank_balance bank_empty x d = 0. Proof. reflexivity. Qed.

Lemma genesis_model su w0 m0 : NoDup (acct_ids su) -> init_world su = SOk w0 -> model_snap su w0 = SOk m0 ->
  genesis_ok su m0 = true.
Proof.
  intros Hnd H0 HM. pose proof (model_snap_views _ _ _ HM) as V.
  assert (Eb : sn_bal m0 = map (q_balance (w_st w0)) (acct_ids su) /\ True).
  { unfold model_snap in HM. inv_bind HM as del Hd. inv_bind HM as rew Hr. injection HM as <-. split; [reflexivity|exact Logic.I]. }
  destruct Eb as [Eb _].
  unfold init_world in H0. inv_bind H0 as s0 Hs. injection H0 as <-. cbn [w_st w_now] in *.
  unfold init_state in Hs. inv_bind Hs as b Hb. inv_bind Hs as vis Hv. injection Hs as <-.
  apply init_bank_spec in Hb as (B1 & B2 & B3); [|exact Hnd|apply bank_wf_empty|intros; apply bank_empty_zero].
  unfold genesis_ok. rewrite (queries_consistent_model su _ m0 V). cbn [andb].
  assert (P1 : all_pairs su (fun d v => (sn_amt su m0 d v =? 0) && option_eqb N.eqb (sn_rw su m0 d v) None) = true).
  { apply all_pairs_spec. intros d v Hi. rewrite (view_amt _ _ _ _ _ V Hi). cbn [w_st].
    change (disp (mkSt [] vis [] [] b) d v) with 0. cbn [N.eqb andb].
    destruct (v_rew _ _ _ V d v Hi) as (x & Q & Z). unfold sn_rw. rewrite Z.
    unfold q_rewards in Q. cbn [w_st] in Q. change (get_stake d v (mkSt [] vis [] [] b)) with (@None shares) in Q.
    destruct (get_val (params_of su) v); [injection Q as <-; reflexivity|discriminate]. }
  rewrite P1. cbn [andb].
  assert (P2 : list_eqb N.eqb (sn_bal m0) (map snd (su_accts su)) = true).
  { rewrite Eb. unfold acct_ids. rewrite map_map.
    assert (E : map (fun x : N * N => q_balance (mkSt [] vis [] [] b) (fst x)) (su_accts su) = map snd (su_accts su)).
    { apply map_ext_in. intros [a bal] Hi. cbn [fst snd]. apply (B1 a bal Hi). }
    rewrite E. apply list_eqb_refl', N.eqb_refl. }
  rewrite P2. cbn [andb].
  rewrite (v_pool _ _ _ V), (v_sup _ _ _ V). unfold q_pool, q_supply. cbn [w_st s_bank].
  rewrite B3 by (intros a _ C; symmetry in C; revert C; apply acct_not_pool).
  rewrite B2. change (bank_balance bank_empty pool TOKEN) with 0. change (bank_supply bank_empty TOKEN) with 0.
  rewrite N.add_0_l, !N.eqb_refl. reflexivity.
Qed.

(* ---------- C14_model_ok ---------- *)

(* the oracle state at genesis simulates the initial world *)
Lemma osim0 su w0 : setup_ok su -> init_world su = SOk w0 -> osim su (ost0 su) w0.
Proof.
  intros Hsu H0. unfold init_world in H0. inv_bind H0 as s0 Hs. injection H0 as <-.
  unfold init_state in Hs. inv_bind Hs as b Hb. inv_bind Hs as vis Hv. injection Hs as <-.
  constructor; cbn [o_now o_q o_w ost0 w_now w_st s_queue]; try reflexivity.
  intros d Hd. apply Hsu, Hd.
Qed.

Lemma model_ok_lemma su ops w0 m0 :
  setup_ok su -> NoDup (acct_ids su) -> Forall (scoped su) ops ->
  init_world su = SOk w0 -> model_snap su w0 = SOk m0 -> clean (model_run su w0 m0 ops) ->
  filter (in_set C14_clauses) (oracle su ops m0 (map fst (model_run su w0 m0 ops))) = [] /\
  c14 su ops m0 (map fst (model_run su w0 m0 ops)) = Agree.
Proof.
  intros Hsu Hnd Hsc H0 HM Hc.
  assert (F : filter (in_set C14_clauses) (oracle su ops m0 (map fst (model_run su w0 m0 ops))) = []).
  { unfold oracle. rewrite (genesis_model su w0 m0 Hnd H0 HM). cbn [app].
    apply oracle_from_model; try assumption.
    - apply init_world_inv, H0.
    - apply osim0; assumption.
    - apply model_snap_views, HM. }
  split; [exact F|]. unfold c14, check. rewrite H0, HM, snap_eqb_refl, F. cbn [first_unknown first_known].
  unfold first_disagreement. rewrite first_diff_refl; [reflexivity|].
  intros [o s]. unfold ob_eqb. cbn [fst snd]. rewrite snap_eqb_refl. destruct o; reflexivity.
Qed.

(* the premises of model_ok_lemma by computation *)
Definition scopedb (su : setup) (o : op) : bool :=
  match o with
  | Delegate d _ _ _ | Undelegate d _ _ _ | Redelegate d _ _ _ _ | Withdraw d _ => mem d (su_dels su)
  | SetWithdraw d (Some w) => mem d (su_dels su) && mem w (acct_ids su)
  | SetWithdraw d None => mem d (su_dels su)
  | _ => true
  end.
Lemma scopedb_ok su ops : forallb (scopedb su) ops = true -> Forall (scoped su) ops.
Proof.
  intros H. apply Forall_forall. intros o Ho. rewrite forallb_forall in H. specialize (H o Ho).
  destruct o as [d v a b|d v a b|d v1 v2 a b|d v|d [w|]|v p|dt]; cbn [scopedb scoped] in *;
    try (apply mem_In, H); try exact Logic.I.
  apply andb_true_iff in H as [H1 H2]. split; apply mem_In; assumption.
Qed.
Lemma setup_okb su : forallb (fun d => mem d (acct_ids su)) (su_dels su) = true -> setup_ok su.
Proof. intros H d Hd. rewrite forallb_forall in H. apply mem_In, H, Hd. Qed.
Fixpoint nodupb (l : list N) : bool := match l with [] => true | x :: r => negb (mem x r) && nodupb r end.
Lemma nodupb_ok l : nodupb l = true -> NoDup l.
Proof.
  induction l as [|x r IH]; intros H; [constructor|]. cbn [nodupb] in H. apply andb_true_iff in H as [H1 H2].
  constructor; [|apply IH, H2]. intros C. apply mem_In in C. rewrite C in H1. discriminate.
Qed.
Definition cleanb (run : list (oc * snap * world)) : bool :=
  forallb (fun y : oc * snap * world => match fst (fst y) with OOk | OErr => true | _ => false end) run.
Lemma cleanb_ok run : cleanb run = true -> clean run.
Proof.
  intros H. apply Forall_forall. intros x Hx. unfold cleanb in H. rewrite forallb_forall in H. specialize (H x Hx).
  destruct (fst (fst x)); auto; discriminate.
Qed.
