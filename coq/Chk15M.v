(* Chk15M.v — clause 35 of the oracle (the lower bound on rewards, per period of positive displayed
   delegation) on the model's own run: the oracle's per-pair ledger is simulated by the ghost period ledger of
   Chk15L.v, so the clause can fail only for a pair that met the class DriftZeroTotal in a reachable world.
   No pinned theorems here. *)
From Verif Require Import Base OMap Bank Dec Staking StakingInv Chk14 StakingHist Chk16 Chk15 Chk14M Chk16M Chk15H Chk15L.
Local Open Scope N_scope.

(* ---------- the oracle's ledger step, uniformly over the operations ---------- *)

Definition secs_of (os : ost) (o : op) : N :=
  match o with Advance dt => secs_between (o_now os) (o_now os + dt) | _ => 0 end.
Definition paid_of (su : setup) (B : snap) (o : op) : N -> N -> N :=
  match o with Withdraw d v => fun d' v' => if is_pair d v d' v' then rw0 (sn_rw su B d v) else 0 | _ => no_paid end.
Definition ended_of (su : setup) (B : snap) (o : op) : N -> N -> bool :=
  match o with Redelegate d v1 _ a _ => fun d' v' => is_pair d v1 d' v' && (sn_amt su B d v1 <=? a) | _ => no_end end.

Lemma ostep_led su os B o A :
  o_led (snd (ostep su os B o OOk A)) = leds_step su os B A (secs_of os o) (paid_of su B o) (ended_of su B o) /\
  o_now (snd (ostep su os B o OOk A)) = o_now os + (match o with Advance dt => dt | _ => 0 end) /\
  exists X, fst (ostep su os B o OOk A) = X ++ reward_bounds su (snd (ostep su os B o OOk A)) A /\
            (forall f, In f X -> fst (fst f) <> 35).
Proof.
  assert (Hchk : forall c b f, c <> 35 -> In f (chk c b) -> fst (fst f) <> 35).
  { intros c b f Hc Hf. unfold chk in Hf. destruct b; [destruct Hf|]. destruct Hf as [<-|[]]. exact Hc. }
  assert (Hcp : forall c g f, c <> 35 -> In f (chk_pairs su c g) -> fst (fst f) <> 35).
  { intros c g f Hc Hf. unfold chk_pairs in Hf. apply in_flat_map in Hf as (k & _ & Hf).
    destruct (g (fst k) (snd k)); [destruct Hf|]. destruct Hf as [<-|[]]. exact Hc. }
  destruct o as [d v a b|d v a b|d v1 v2 a b|d v|d wd|v p|dt]; cbn [ostep fst snd o_led o_now secs_of paid_of ended_of].
  - split; [reflexivity|]. split; [lia|]. eexists. split; [rewrite !app_assoc; reflexivity|].
    intros f Hf. repeat (apply in_app_or in Hf as [Hf|Hf]); eapply Hchk; try exact Hf; discriminate.
  - split; [reflexivity|]. split; [lia|]. eexists. split; [rewrite !app_assoc; reflexivity|].
    intros f Hf. repeat (apply in_app_or in Hf as [Hf|Hf]); eapply Hchk; try exact Hf; discriminate.
  - split; [reflexivity|]. split; [lia|]. eexists. split; [rewrite !app_assoc; reflexivity|].
    intros f Hf. repeat (apply in_app_or in Hf as [Hf|Hf]); eapply Hchk; try exact Hf; discriminate.
  - split; [reflexivity|]. split; [lia|]. eexists. split; [rewrite !app_assoc; reflexivity|].
    intros f Hf. unfold withdraw_clauses in Hf.
    repeat (apply in_app_or in Hf as [Hf|Hf]); try (eapply Hchk; [|exact Hf]; discriminate); try (eapply Hcp; [|exact Hf]; discriminate).
  - split; [reflexivity|]. split; [lia|]. eexists. split; [rewrite !app_assoc; reflexivity|].
    intros f Hf. repeat (apply in_app_or in Hf as [Hf|Hf]); eapply Hchk; try exact Hf; discriminate.
  - split; [reflexivity|]. split; [lia|]. eexists. split; [rewrite !app_assoc; reflexivity|].
    intros f Hf. unfold slash_clauses, slash_never_increases, slash_frame, slash_lower, slash_upper, slash_rewards_kept, slash_total_removes in Hf.
    repeat (apply in_app_or in Hf as [Hf|Hf]); try (eapply Hchk; [|exact Hf]; discriminate); try (eapply Hcp; [|exact Hf]; discriminate).
  - split; [reflexivity|]. split; [reflexivity|]. eexists. split; [rewrite !app_assoc; reflexivity|].
    intros f Hf. repeat (apply in_app_or in Hf as [Hf|Hf]); eapply Hchk; try exact Hf; discriminate.
Qed.

Lemma fget_map_self {V} (g : N * N -> V) : forall l k, In k l -> fget peqb k (map (fun k => (k, g k)) l) = Some (g k).
Proof.
  induction l as [|k0 l IH]; intros k Hk; [destruct Hk|]. cbn [map fget]. destruct (peqb k k0) eqn:E.
  - apply peqb_spec in E. subst. reflexivity.
  - destruct Hk as [->|Hk]; [rewrite peqb_refl in E; discriminate|apply IH, Hk].
Qed.

Lemma get_led_ostep su os B o A d v : In (d, v) (pairs su) ->
  get_led (snd (ostep su os B o OOk A)) d v =
  led_step su os B A (secs_of os o) d v (paid_of su B o d v) (ended_of su B o d v) (get_led os d v).
Proof.
  intros Hi. unfold get_led at 1. rewrite (proj1 (ostep_led su os B o A)). unfold leds_step.
  rewrite (fget_map_self (fun k => led_step su os B A (secs_of os o) (fst k) (snd k) (paid_of su B o (fst k) (snd k))
                                     (ended_of su B o (fst k) (snd k)) (get_led os (fst k) (snd k))) (pairs su) (d, v) Hi).
  reflexivity.
Qed.

(* ---------- model-level facts about one step ---------- *)

Lemma max_now_last now l : l <= now -> N.max now l = now. Proof. lia. Qed.

Lemma update_stake_clock P now s d v a sub s' : last_ok now s -> update_stake P now s d v a sub = SOk s' ->
  lastns s' v = now /\
  (forall d' v', v' <> v -> stake_of s' d' v' = stake_of s d' v') /\ (forall v', v' <> v -> lastns s' v' = lastns s v').
Proof.
  intros Hl H. apply update_stake_spec in H as (vi & comm & st' & ns & Gv & _ & _ & _ & _ & _ & So & Vo & Vv & _).
  split; [unfold lastns; rewrite Vv; cbn [vi_last]; apply max_now_last, (Hl v vi Gv)|]. split.
  - intros d' v' Hn. unfold stake_of. rewrite (So d' v' Hn). reflexivity.
  - intros v' Hn. unfold lastns. rewrite (Vo v' Hn). reflexivity.
Qed.

Lemma step_clock su w o w' : winv su w -> step su w o = SOk w' -> is_advance o = false ->
  w_now w' = w_now w /\
  forall d v, (stake_of (w_st w') d v = stake_of (w_st w) d v /\ lastns (w_st w') v = lastns (w_st w) v) \/
              lastns (w_st w') v = w_now w.
Proof.
  intros I H Ha. pose proof (inv_stakers _ _ _ I) as Hs. pose proof (inv_last _ _ _ I) as Hl.
  destruct o as [d0 v0 a b|d0 v0 a b|d0 v1 v2 a b|d0 v0|d0 wd|v0 p|dt]; try discriminate; cbn [step] in H.
  - inv_bind H as s' X. injection H as <-. cbn [w_now w_st]. split; [reflexivity|]. unfold exec_delegate in X.
    destruct (a =? 0); [discriminate|]. destruct (negb b); [discriminate|]. inv_bind X as s1 U. inv_bind X as b1 B. injection X as <-.
    apply update_stake_clock in U as (C1 & C2 & C3); [|exact Hl]. intros d v.
    destruct (N.eq_dec v v0) as [->|Hn]; [right; exact C1|left; split; [apply C2, Hn|apply C3, Hn]].
  - inv_bind H as s' X. injection H as <-. cbn [w_now w_st]. split; [reflexivity|]. unfold exec_undelegate in X.
    destruct (negb b); [discriminate|]. destruct (a =? 0); [discriminate|]. inv_bind X as s1 U.
    destruct (U64 <=? _); [discriminate|]. destruct (U64 <=? _); [discriminate|]. injection X as <-.
    apply update_stake_clock in U as (C1 & C2 & C3); [|exact Hl]. intros d v.
    destruct (N.eq_dec v v0) as [->|Hn]; [right; exact C1|left; split; [apply C2, Hn|apply C3, Hn]].
  - inv_bind H as s' X. injection H as <-. cbn [w_now w_st]. split; [reflexivity|]. unfold exec_redelegate in X.
    destruct (negb b); [discriminate|]. inv_bind X as sm U1.
    pose proof (update_stake_last_ok _ _ _ _ _ _ _ _ Hl U1) as Hlm.
    apply update_stake_clock in U1 as (A1 & A2 & A3); [|exact Hl]. apply update_stake_clock in X as (B1 & B2 & B3); [|exact Hlm].
    intros d v. destruct (N.eq_dec v v2) as [->|Hn2]; [right; exact B1|].
    destruct (N.eq_dec v v1) as [->|Hn1]; [right; rewrite (B3 v1 Hn2); exact A1|].
    left. split; [rewrite (B2 d v Hn2); apply A2, Hn1|rewrite (B3 v Hn2); apply A3, Hn1].
  - inv_bind H as s' X. injection H as <-. cbn [w_now w_st]. split; [reflexivity|].
    apply withdraw_lemma in X as (s1 & sh & Hu & G & X); [|apply (inv_bank _ _ _ I)]. cbn zeta in X.
    destruct X as (_ & _ & _ & _ & St & Vi & _).
    apply update_rewards_spec in Hu as (vi & comm & Gv & _ & _ & Vo & Vv). intros d v.
    destruct (N.eq_dec v v0) as [->|Hn].
    + right. unfold lastns. rewrite Vi, Vv. cbn [vi_last]. apply max_now_last, (Hl v0 vi Gv).
    + left. split; [apply St|unfold lastns; rewrite Vi, (Vo v Hn); reflexivity].
  - inv_bind H as s' X. injection H as <-. cbn [w_now w_st]. split; [reflexivity|]. unfold exec_set_withdraw in X.
    destruct wd as [w1|]; [|discriminate]. destruct (d0 =? w1); injection X as <-; intros d v; left; split; reflexivity.
  - inv_bind H as s' X. injection H as <-. cbn [w_now w_st]. split; [reflexivity|].
    apply slash_spec in X as (s1 & vi & Hu & Gv & _ & _ & X); [|exact Hs]. cbn zeta in X.
    destruct X as (_ & _ & _ & _ & Vo & So & Vv & _).
    pose proof (update_rewards_last_ok _ _ _ _ _ Hl Hu v0 vi Gv) as L1.
    apply update_rewards_spec in Hu as (vi0 & comm & Gv0 & _ & _ & _ & Vv1). rewrite Vv1 in Gv. injection Gv as <-. cbn [vi_last] in *.
    intros d v. destruct (N.eq_dec v v0) as [->|Hn].
    + right. unfold lastns. rewrite Vv. cbn [vi_last]. apply max_now_last, (Hl v0 vi0 Gv0).
    + left. split; [unfold stake_of; rewrite (So d v Hn); reflexivity|unfold lastns; rewrite (Vo v Hn); reflexivity].
Qed.

Lemma advance_keep su w dt w' : winv su w -> step su w (Advance dt) = SOk w' ->
  w_now w' = w_now w + dt /\
  forall d v, disp (w_st w') d v <> 0 -> stake_of (w_st w') d v = stake_of (w_st w) d v /\ lastns (w_st w') v = lastns (w_st w) v.
Proof.
  intros I H. cbn [step] in H. destruct (U64 <=? w_now w + dt); [discriminate|]. inv_bind H as s' X. injection H as <-.
  cbn [w_now w_st]. split; [reflexivity|]. apply process_queue_from_keep in X as [A1 A2].
  intros d v Hd. apply disp_nonzero_entry in Hd. split; [unfold stake_of; rewrite (A1 d v Hd); reflexivity|apply A2].
Qed.

Lemma ended_match su w B o d v : views su w B -> In (d, v) (pairs su) ->
  ended_of su B o d v = redel_full o (w_st w) d v.
Proof.
  intros VB Hi. destruct o as [| |d0 v1 v2 a b| | | |]; try reflexivity. cbn [ended_of redel_full]. unfold is_pair.
  rewrite (N.eqb_sym d d0), (N.eqb_sym v v1). destruct (d0 =? d) eqn:E1; [|reflexivity]. destruct (v1 =? v) eqn:E2; [|reflexivity].
  apply N.eqb_eq in E1, E2. subst d0 v1. cbn [andb]. rewrite (view_amt _ _ _ _ _ VB Hi). reflexivity.
Qed.

Lemma paid_match su w B o w' d v :
  setup_ok su -> scoped su o -> winv su w -> views su w B -> step su w o = SOk w' -> In (d, v) (pairs su) ->
  paid_of su B o d v = paid_by o w w' d v /\ (0 <? paid_of su B o d v) = wd_of o d v.
Proof.
  intros Hsu Hsc I VB H Hi. destruct o as [| | |d0 v0| | |]; try (split; reflexivity).
  cbn [paid_of paid_by wd_of]. unfold is_pair. rewrite (N.eqb_sym d d0), (N.eqb_sym v v0).
  destruct ((d0 =? d) && (v0 =? v)) eqn:E; [|split; reflexivity].
  apply andb_true_iff in E as [E1 E2]. apply N.eqb_eq in E1, E2. subst d0 v0.
  cbn [step] in H. inv_bind H as s' X. injection H as <-. cbn [w_st].
  pose proof (view_rw_ex su w B d v VB Hi) as QB.
  destruct (withdraw_pays_shown_lemma _ _ _ _ _ _ (inv_stakers _ _ _ I) (inv_last _ _ _ I) (inv_bank _ _ _ I) X _ QB) as (r & Er & Pr & Hw).
  cbn zeta in Hw. destruct Hw as (_ & _ & _ & Su & _). rewrite Er. cbn [rw0]. rewrite Su.
  split; [lia|apply N.ltb_lt, Pr].
Qed.

(* ---------- the simulation of the oracle's ledger by the ghost period ledger ---------- *)

(* the ideal of the running interval (since the validator's last reward update) *)
Definition T35 (su : setup) (w : world) (d v : N) : N :=
  stake_of (w_st w) d v * su_apr su * (w_now w / NS - lastns (w_st w) v / NS) * kfac su v.

Definition pair35 (su : setup) (w : world) (l : led) (g : ledp) (d v : N) : Prop :=
  l_paidp l = P_paid g /\ l_wp l = P_W g /\ l_lo l * D18 <= P_I g + T35 su w d v /\
  P_N g * D18 + P_S g <= l_kapl l * D18.

Lemma rate_kfac su v : comm_ok su -> known_val su v = true -> rate su v = su_apr su * kfac su v.
Proof.
  intros Hc Hk. unfold rate, kfac, comm_of. unfold known_val in Hk. specialize (Hc v). unfold get_val in Hc. cbn [p_vals params_of] in Hc.
  destruct (fget N.eqb v (su_vals su)) as [c|]; [|discriminate]. specialize (Hc c eq_refl). rewrite N.min_l by exact Hc. reflexivity.
Qed.

Lemma lastns_le_now su w v : winv su w -> lastns (w_st w) v <= w_now w.
Proof. intros I. unfold lastns. destruct (get_vi v (w_st w)) as [vi|] eqn:G; [apply (inv_last _ _ _ I v vi G)|apply N.le_0_l]. Qed.

Lemma kslack_le s d v : kslack s d v <= (disp s d v + 1) * D18.
Proof.
  unfold kslack, disp. pose proof (floor_lt (stake_of s d v)) as F. destruct (_ <=? _); [|lia].
  assert (D18 <= (to_uint_floor (stake_of s d v) + 1) * D18) by nia. lia.
Qed.

Lemma secs_of_nonadvance os o : is_advance o = false -> secs_of os o = 0.
Proof. destruct o; try reflexivity. discriminate. Qed.

Lemma div_mono_NS a b : a <= b -> a / NS <= b / NS.
Proof. intros H. apply N.div_le_mono; [discriminate|exact H]. Qed.

Lemma pair35_step su os w L B o w' A d v :
  comm_ok su -> setup_ok su -> scoped su o -> winv su w -> osim su os w -> views su w B -> views su w' A ->
  step su w o = SOk w' -> In (d, v) (pairs su) ->
  pair35 su w (get_led os d v) (L d v) d v ->
  pair35 su w' (led_step su os B A (secs_of os o) d v (paid_of su B o d v) (ended_of su B o d v) (get_led os d v))
         (lstepP su w o w' L d v) d v.
Proof.
  intros Hc Hsu Hsc I Sim VB VA H Hi (Ea & Eb & Ec & Ed).
  unfold led_step, lstepP. cbn zeta. unfold period_ends.
  rewrite (ended_match su w B o d v VB Hi), (view_amt _ _ _ _ _ VA Hi), orb_comm.
  destruct ((disp (w_st w') d v =? 0) || redel_full o (w_st w) d v) eqn:Er.
  - unfold pair35. cbn [l_paidp l_wp l_lo l_kapl P_paid P_W P_I P_N P_S]. repeat split; try reflexivity; apply N.le_0_l.
  - apply orb_false_iff in Er as [Er1 Er2]. apply N.eqb_neq in Er1.
    destruct (paid_match su w B o w' d v Hsu Hsc I VB H Hi) as [Pm Wm].
    assert (Kv : known_val su v = true) by (apply known_val_In, (in_pairs su d v), Hi).
    pose proof (rate_kfac su v Hc Kv) as Rk.
    pose proof (lastns_le_now su w v I) as Ll. pose proof (kslack_le (w_st w) d v) as Ks.
    assert (Hhi : disp (w_st w) d v <= stake_hi su os B d v) by (unfold stake_hi; rewrite (view_amt _ _ _ _ _ VB Hi); lia).
    unfold pair35. cbn [l_paidp l_wp l_lo l_kapl P_paid P_W P_I P_N P_S].
    split; [rewrite Ea, Pm; reflexivity|]. split; [rewrite Eb, Wm; reflexivity|]. split.
    + rewrite (view_amt _ _ _ _ _ VB Hi), Rk. unfold T35 in *.
      pose proof (floor_le (stake_of (w_st w) d v)) as Fl. fold (disp (w_st w) d v) in Fl.
      set (st := stake_of (w_st w) d v) in *. set (ds := disp (w_st w) d v) in *. set (apr := su_apr su) in *. set (k := kfac su v) in *.
      set (l0 := lastns (w_st w) v) in *. set (now := w_now w) in *.
      destruct (is_advance o) eqn:Ia.
      * destruct o as [| | | | | |dt]; try discriminate. cbn [secs_of]. rewrite (os_now _ _ _ Sim). fold now. unfold secs_between.
        destruct (advance_keep su w dt w' I H) as [En Ek]. destruct (Ek d v Er1) as [Es El].
        rewrite Es, El, En. fold st l0 now. rewrite N.sub_diag, N.mul_0_r, N.mul_0_l, N.add_0_r.
        pose proof (div_mono_NS l0 now Ll) as D1. pose proof (div_mono_NS now (now + dt) ltac:(lia)) as D2.
        set (a := l0 / NS) in *. set (b := now / NS) in *. set (c := (now + dt) / NS) in *.
        assert (E : c - a = (b - a) + (c - b)) by lia. rewrite E.
        assert (A1 : ds * D18 * (apr * k * (c - b)) <= st * (apr * k * (c - b))) by (apply N.mul_le_mono_r; exact Fl).
        nia.
      * rewrite (secs_of_nonadvance os o Ia), N.mul_0_r, N.add_0_r.
        destruct (step_clock su w o w' I H Ia) as [En Ck]. rewrite En. fold now.
        destruct (Ck d v) as [[Es El]|El].
        -- rewrite Es, El. fold st l0. rewrite N.sub_diag, N.mul_0_r, N.mul_0_l, N.add_0_r. exact Ec.
        -- rewrite El. fold now. rewrite N.sub_diag, N.mul_0_r, N.mul_0_l, N.add_0_r. lia.
    + destruct (lastns (w_st w') v =? lastns (w_st w) v); cbn [negb]; nia.
Qed.

(* ---------- clause 35 on the model's observations ---------- *)

Definition known35 (su : setup) (w0 : world) (f : fail) : Prop :=
  exists w1, reach su w0 w1 /\ zero_total_with_share w1 (snd (fst f)) (snd f) = true.

Lemma bad_witness su w0 L0 w L : preach su w0 L0 w L -> (forall d v, P_bad (L0 d v) = 0) ->
  forall d v, P_bad (L d v) <> 0 -> exists w1, reach su w0 w1 /\ zts (w_st w1) d v = true.
Proof.
  induction 1 as [w L|w L w1 L1 w2 o R IH S]; intros H0 d v Hb; [exfalso; apply Hb, H0|].
  unfold lstepP in Hb. cbn zeta in Hb. destruct (period_ends o w1 w2 d v); [exfalso; apply Hb; reflexivity|].
  cbn [P_bad] in Hb. destruct (zts (w_st w1) d v) eqn:Z.
  - exists w1. split; [eapply preach_reach; eassumption|exact Z].
  - rewrite andb_false_r, N.add_0_r in Hb. apply (IH H0 d v Hb).
Qed.

Lemma q_rewards_some P now s d v x : get_stake d v s <> None -> q_rewards P now s d v = SOk x -> exists r, x = Some r.
Proof.
  unfold q_rewards. intros Hd H. destruct (get_val P v); [|discriminate]. destruct (get_stake d v s); [|contradiction].
  destruct (get_vi v s); [|discriminate]. inv_bind H as r Hr. injection H as <-. eauto.
Qed.

Lemma lower_ok_model su w0 os' w' L' A d v :
  comm_ok su -> init_world su = SOk w0 -> preach su w0 ledgerP0 w' L' -> views su w' A -> In (d, v) (pairs su) ->
  pair35 su w' (get_led os' d v) (L' d v) d v ->
  lower_ok su os' A d v = true \/ known35 su w0 (35, d, v).
Proof.
  intros Hc H0 R VA Hi (Ea & Eb & Ec & Ed). unfold lower_ok. cbn zeta. rewrite (view_amt _ _ _ _ _ VA Hi).
  destruct (disp (w_st w') d v =? 0) eqn:Z; [left; reflexivity|]. apply N.eqb_neq in Z. cbn [orb].
  pose proof (reach_inv su w0 w' (init_world_inv su w0 H0) (preach_reach _ _ _ _ _ R)) as I.
  destruct (N.eq_dec (P_bad (L' d v)) 0) as [Hb|Hb].
  2:{ right. destruct (bad_witness su w0 ledgerP0 w' L' R (fun _ _ => eq_refl) d v Hb) as (w1 & R1 & Z1). exists w1. split; [exact R1|exact Z1]. }
  destruct (zts (w_st w') d v) eqn:Hz.
  { right. exists w'. split; [eapply preach_reach; eassumption|exact Hz]. }
  left. pose proof (view_rw_ex su w' A d v VA Hi) as Q.
  destruct (q_rewards_some _ _ _ _ _ _ (disp_nonzero_entry _ _ _ Z) Q) as (r & Er). rewrite Er in *. cbn [rw0].
  pose proof (shown_lower_lemma su w' L' d v r Hc I (rewards_lower_history_lemma su w0 w' L' Hc H0 R) Hb Hz Q) as B.
  fold (T35 su w' d v) in B. pose proof (kslack_le (w_st w') d v) as Ks.
  assert (Hhi : disp (w_st w') d v <= stake_hi su os' A d v) by (unfold stake_hi; rewrite (view_amt _ _ _ _ _ VA Hi); lia).
  apply N.ltb_lt. unfold TOK36, ATOM. fold YD.
  set (l := get_led os' d v) in *. set (g := L' d v) in *. set (hi := stake_hi su os' A d v) in *.
  set (ks := kslack (w_st w') d v) in *. set (ds := disp (w_st w') d v) in *. set (T := T35 su w' d v) in *.
  assert (Pd : 0 < D18) by reflexivity.
  apply (N.mul_lt_mono_pos_r D18); [exact Pd|].
  assert (A1 : ((P_N g + 1) * D18 + P_S g + ks) * YD <= ((l_kapl l + hi + 2) * D18) * YD) by (apply N.mul_le_mono_r; nia).
  rewrite Ea, Eb. nia.
Qed.

Lemma cf_none cs (X : list fail) : (forall f, In f X -> mem (fst (fst f)) cs = false) -> cf cs X = [].
Proof.
  intros H. induction X as [|f X IH]; [reflexivity|]. cbn [cf filter]. rewrite (H f (or_introl eq_refl)).
  apply IH. intros g Hg. apply H. right. exact Hg.
Qed.

Lemma not35 c : c <> 35 -> mem c [35] = false.
Proof. intros H. unfold mem. cbn [existsb]. apply N.eqb_neq in H. rewrite H. reflexivity. Qed.

Lemma oracle_from_35 su w0 : forall ops os w B k L,
  comm_ok su -> setup_ok su -> init_world su = SOk w0 -> Forall (scoped su) ops -> winv su w -> osim su os w -> views su w B ->
  preach su w0 ledgerP0 w L ->
  (forall d v, In (d, v) (pairs su) -> pair35 su w (get_led os d v) (L d v) d v) ->
  clean (model_run su w B ops) ->
  Forall (fun kf : N * fail => known35 su w0 (snd kf))
         (filter (in_set [35]) (oracle_from su os B ops (map fst (model_run su w B ops)) k)).
Proof.
  induction ops as [|o ops IH]; intros os w B k L Hc Hsu H0 Hsc I Sim VB R P35 Hcl; [constructor|].
  inversion Hsc as [|? ? Ho Hsc']; subst. cbn [model_run] in *.
  destruct (step su w o) as [w'| | |] eqn:S.
  - destruct (model_snap su w') as [A| | |] eqn:MA;
      try (inversion Hcl as [|? ? Hx _]; subst; cbn in Hx; destruct Hx; discriminate).
    inversion Hcl as [|? ? _ Hcl']; subst. cbn [map fst oracle_from].
    pose proof (model_snap_views _ _ _ MA) as VA.
    destruct (step_ok_model su os w B o w' A Hsu Ho I Sim VB S VA) as [_ Sim'].
    pose proof (preach_step su w0 ledgerP0 w L w' o R S) as R'.
    assert (P35' : forall d v, In (d, v) (pairs su) ->
              pair35 su w' (get_led (snd (ostep su os B o OOk A)) d v) (lstepP su w o w' L d v) d v).
    { intros d v Hi. rewrite (get_led_ostep su os B o A d v Hi). apply pair35_step; try assumption. apply P35, Hi. }
    destruct (ostep_led su os B o A) as (_ & _ & X & EX & HX).
    destruct (ostep su os B o OOk A) as [fs os'] eqn:E. cbn [fst snd] in *.
    rewrite filter_app, filter_in_set_cf. apply Forall_app. split.
    + apply Forall_forall. intros kf Hkf. apply in_map_iff in Hkf as (f & <- & Hf). cbn [snd].
      rewrite EX, cf_app, (cf_none [35] X) in Hf by (intros g Hg; apply not35, HX, Hg). cbn [app] in Hf.
      unfold reward_bounds in Hf. rewrite cf_app, (cf_chk_pairs_out [35] su 34) in Hf by reflexivity. cbn [app] in Hf.
      apply in_cf_chk_pairs in Hf as (Ecl & Hi & Ef). destruct f as [[c d] v]. cbn [fst snd] in *. subst c.
      destruct (lower_ok_model su w0 os' w' _ A d v Hc H0 R' VA Hi (P35' d v Hi)) as [T|K]; [congruence|exact K].
    + apply (IH os' w' A (N.succ k) (lstepP su w o w' L)); try assumption. eapply step_inv; eassumption.
  - destruct (err_15 su os w B o I S) as (Ha & _ & Eo). rewrite Ha in *.
    inversion Hcl as [|? ? _ Hcl']; subst. cbn [map fst oracle_from].
    assert (F : cf [35] (fst (ostep su os B o OErr B)) = []).
    { cbn [ostep fst]. rewrite !cf_app. rewrite !(cf_chk_out [35]) by reflexivity. cbn [app].
      destruct o; try reflexivity. apply cf_chk_out. reflexivity. }
    destruct (ostep su os B o OErr B) as [fs os'] eqn:E. cbn [fst snd] in F, Eo. subst os'.
    rewrite filter_app, filter_in_set_cf, F. cbn [map app]. apply (IH os w B (N.succ k) L); assumption.
  - inversion Hcl as [|? ? Hx _]; subst. cbn in Hx. destruct Hx; discriminate.
  - inversion Hcl as [|? ? Hx _]; subst. cbn in Hx. destruct Hx; discriminate.
Qed.

Lemma model_ok_35_lemma su ops w0 m0 :
  comm_ok su -> setup_ok su -> Forall (scoped su) ops ->
  init_world su = SOk w0 -> model_snap su w0 = SOk m0 -> clean (model_run su w0 m0 ops) ->
  Forall (fun kf : N * fail => known35 su w0 (snd kf))
         (filter (in_set [35]) (oracle su ops m0 (map fst (model_run su w0 m0 ops)))).
Proof.
  intros Hc Hsu Hsc H0 HM Hcl. unfold oracle. rewrite filter_app.
  match goal with |- Forall _ (?a ++ _) => assert (G : a = []) by (destruct (genesis_ok su m0); reflexivity); rewrite G end.
  cbn [app].
  apply (oracle_from_35 su w0 ops (ost0 su) w0 m0 1 ledgerP0); try assumption.
  - apply init_world_inv, H0.
  - apply osim0; assumption.
  - apply model_snap_views, HM.
  - constructor.
  - intros d v _. unfold pair35, get_led. cbn. repeat split; try reflexivity; apply N.le_0_l.
Qed.

(* the clauses 0, 1, 2, 30-33 never fail and clause 35 fails only in the class DriftZeroTotal *)
Definition C15m35 : clause_set := 35 :: C15m.
Lemma model_ok_15_35_lemma su ops w0 m0 :
  comm_ok su -> setup_ok su -> NoDup (acct_ids su) -> Forall (scoped su) ops ->
  init_world su = SOk w0 -> model_snap su w0 = SOk m0 -> clean (model_run su w0 m0 ops) ->
  Forall (fun kf : N * fail => fst (fst (snd kf)) = 35 /\ known35 su w0 (snd kf))
         (filter (in_set C15m35) (oracle su ops m0 (map fst (model_run su w0 m0 ops)))).
Proof.
  intros Hc Hsu Hnd Hsc H0 HM Hcl.
  pose proof (model_ok_15_lemma su ops w0 m0 Hsu Hnd Hsc H0 HM Hcl) as F1.
  pose proof (model_ok_35_lemma su ops w0 m0 Hc Hsu Hsc H0 HM Hcl) as F2.
  apply Forall_forall. intros kf Hkf. apply filter_In in Hkf as [Hin Hs].
  unfold in_set, C15m35, mem in Hs. cbn [existsb] in Hs. fold (mem (fst (fst (snd kf))) C15m) in Hs.
  destruct (fst (fst (snd kf)) =? 35) eqn:E.
  - apply N.eqb_eq in E. split; [exact E|]. rewrite Forall_forall in F2. apply F2. apply filter_In. split; [exact Hin|].
    unfold in_set, mem. cbn [existsb]. rewrite E. reflexivity.
  - cbn [orb] in Hs. exfalso. assert (C : In kf (filter (in_set C15m) (oracle su ops m0 (map fst (model_run su w0 m0 ops))))).
    { apply filter_In. split; [exact Hin|exact Hs]. }
    rewrite F1 in C. destruct C.
Qed.
