//! Storage layout facts for coq/Layout.v (property C08): the shape of `contract_namespace` and every
//! place where non-test code opens a prefixed view of a store (which function, through which
//! constructor, with which namespace argument).  FAIL-CLOSED like the rest of the translator: an
//! unrecognised `contract_namespace` gives `contract_namespace_ok := false`, and any new / changed
//! site changes the table the lemmas of Layout.v are re-proved about.
use crate::util::*;
use std::fmt::Write as _;
use syn::visit::Visit;

#[derive(Default, Clone, Debug)]
pub struct Layout {
    pub ns_ok: bool,
    pub ns_why: String,
    pub ns_params: Vec<String>,
    pub ns_literal: Vec<u8>,
    /// arguments of `<var>.extend_from_slice(..)` in order
    pub ns_appends: Vec<String>,
    /// (file, enclosing fn, constructor / accessor, namespace-or-address argument text)
    pub sites: Vec<(String, String, String, String)>,
}

const OPENERS: &[&str] = &["prefixed", "prefixed_read", "prefixed_multilevel", "prefixed_multilevel_read"];
const ACCESSORS: &[&str] = &["contract_storage", "contract_storage_mut", "contract_namespace"];

fn is_cfg_test(attrs: &[syn::Attribute]) -> bool {
    attrs.iter().any(|a| a.path().is_ident("cfg") && norm_tokens(&quote::ToTokens::to_token_stream(a).to_string()).contains("cfg(test)"))
}

struct Sites<'a> {
    file: &'a str,
    fns: Vec<String>,
    out: &'a mut Vec<(String, String, String, String)>,
}
impl Sites<'_> {
    fn cur(&self) -> String {
        self.fns.last().cloned().unwrap_or_default()
    }
}
impl<'ast> Visit<'ast> for Sites<'_> {
    fn visit_item_mod(&mut self, m: &'ast syn::ItemMod) {
        if !is_cfg_test(&m.attrs) {
            syn::visit::visit_item_mod(self, m);
        }
    }
    fn visit_item_fn(&mut self, f: &'ast syn::ItemFn) {
        if !is_cfg_test(&f.attrs) {
            self.fns.push(f.sig.ident.to_string());
            syn::visit::visit_item_fn(self, f);
            self.fns.pop();
        }
    }
    fn visit_impl_item_fn(&mut self, f: &'ast syn::ImplItemFn) {
        if !is_cfg_test(&f.attrs) {
            self.fns.push(f.sig.ident.to_string());
            syn::visit::visit_impl_item_fn(self, f);
            self.fns.pop();
        }
    }
    fn visit_trait_item_fn(&mut self, f: &'ast syn::TraitItemFn) {
        self.fns.push(f.sig.ident.to_string());
        syn::visit::visit_trait_item_fn(self, f);
        self.fns.pop();
    }
    fn visit_expr_call(&mut self, c: &'ast syn::ExprCall) {
        if let syn::Expr::Path(p) = &*c.func {
            let n = p.path.segments.len();
            let l = last_seg(&p.path);
            let arg1 = c.args.iter().nth(1).map(|a| text(a)).unwrap_or_default();
            if OPENERS.contains(&l.as_str()) {
                self.out.push((self.file.to_string(), self.cur(), l, arg1));
            } else if n >= 2 && (l == "new" || l == "multilevel") {
                let ty = p.path.segments[n - 2].ident.to_string();
                if ty.ends_with("PrefixedStorage") {
                    self.out.push((self.file.to_string(), self.cur(), format!("{}::{}", ty, l), arg1));
                }
            }
        }
        syn::visit::visit_expr_call(self, c);
    }
    fn visit_expr_method_call(&mut self, c: &'ast syn::ExprMethodCall) {
        let m = c.method.to_string();
        if ACCESSORS.contains(&m.as_str()) {
            let last = c.args.last().map(|a| text(a)).unwrap_or_default();
            self.out.push((self.file.to_string(), self.cur(), m, last));
        }
        syn::visit::visit_expr_method_call(self, c);
    }
}

/// `let mut v = b"..".to_vec(); v.extend_from_slice(e)+; v`
fn namespace_shape(sig: &syn::Signature, block: &syn::Block, lay: &mut Layout) -> Result<(), String> {
    let (_, params) = sig_params(sig)?;
    lay.ns_params = params;
    let st = &block.stmts;
    if st.len() < 3 {
        return Err("fewer than three statements".into());
    }
    let var = match &st[0] {
        syn::Stmt::Local(l) => {
            let v = match &l.pat {
                syn::Pat::Ident(pi) => pi.ident.to_string(),
                _ => return Err("first statement does not bind an identifier".into()),
            };
            let init = l.init.as_ref().ok_or("no initialiser")?;
            match &*init.expr {
                syn::Expr::MethodCall(mc) if mc.method == "to_vec" && mc.args.is_empty() => match &*mc.receiver {
                    syn::Expr::Lit(syn::ExprLit { lit: syn::Lit::ByteStr(b), .. }) => lay.ns_literal = b.value(),
                    _ => return Err("initialiser is not a byte-string literal".into()),
                },
                _ => return Err("initialiser is not <literal>.to_vec()".into()),
            }
            v
        }
        _ => return Err("first statement is not a let".into()),
    };
    for s in &st[1..st.len() - 1] {
        match s {
            syn::Stmt::Expr(syn::Expr::MethodCall(mc), Some(_)) if mc.method == "extend_from_slice" && mc.args.len() == 1 && single_ident(&mc.receiver).as_deref() == Some(var.as_str()) => {
                lay.ns_appends.push(text(&mc.args[0]));
            }
            _ => return Err(format!("unrecognised statement `{}`", text(s))),
        }
    }
    match &st[st.len() - 1] {
        syn::Stmt::Expr(e, None) if single_ident(e).as_deref() == Some(var.as_str()) => Ok(()),
        _ => Err("the function does not return the built vector".into()),
    }
}

struct FindNs<'a> {
    lay: &'a mut Layout,
    found: usize,
}
impl<'ast> Visit<'ast> for FindNs<'_> {
    fn visit_item_mod(&mut self, m: &'ast syn::ItemMod) {
        if !is_cfg_test(&m.attrs) {
            syn::visit::visit_item_mod(self, m);
        }
    }
    fn visit_trait_item_fn(&mut self, f: &'ast syn::TraitItemFn) {
        if f.sig.ident == "contract_namespace" {
            self.found += 1;
            match &f.default {
                Some(b) => match namespace_shape(&f.sig, b, self.lay) {
                    Ok(()) => self.lay.ns_ok = true,
                    Err(e) => self.lay.ns_why = e,
                },
                None => self.lay.ns_why = "no default body".into(),
            }
        }
    }
    fn visit_impl_item_fn(&mut self, f: &'ast syn::ImplItemFn) {
        if f.sig.ident == "contract_namespace" {
            // an override of the default method: not the recognised layout
            self.found += 1;
            self.lay.ns_ok = false;
            self.lay.ns_why = "contract_namespace is overridden in an impl".into();
        }
    }
}

pub fn scan_file(name: &str, file: &syn::File, lay: &mut Layout) {
    if name.starts_with("prefixed_storage") {
        return;
    }
    Sites { file: name, fns: vec![], out: &mut lay.sites }.visit_file(file);
    let before_ok = lay.ns_ok;
    let mut f = FindNs { lay, found: 0 };
    f.visit_file(file);
    let found = f.found;
    if found > 1 || (found == 1 && before_ok) {
        lay.ns_ok = false;
        lay.ns_why = "more than one definition of contract_namespace".into();
    }
}

pub fn coq_section(l: &Layout) -> String {
    let mut o = String::new();
    writeln!(o, "\n(* ---------- storage layout (wasm.rs contract_namespace; every place a prefixed view is opened) ---------- *)").unwrap();
    writeln!(o, "Definition contract_namespace_ok : bool := {}.", coq_bool(l.ns_ok)).unwrap();
    writeln!(o, "Definition contract_namespace_why : string := {}.", cs(&l.ns_why)).unwrap();
    writeln!(o, "Definition contract_namespace_params : list string := {}.", coq_list(&l.ns_params, |p| cs(p))).unwrap();
    writeln!(
        o,
        "Definition contract_namespace_literal : bytes := {}. (* {} *)",
        coq_bytes(&l.ns_literal),
        String::from_utf8_lossy(&l.ns_literal).replace("*)", "* )").replace("(*", "( *")
    )
    .unwrap();
    writeln!(o, "Definition contract_namespace_appends : list string := {}.", coq_list(&l.ns_appends, |p| cs(p))).unwrap();
    writeln!(o, "(* (file, enclosing fn, constructor / accessor, namespace or address argument) in source order *)").unwrap();
    writeln!(
        o,
        "Definition storage_sites : list (string * string * string * string) := {}.",
        if l.sites.is_empty() {
            "[]".to_string()
        } else {
            format!("[\n  {}]", l.sites.iter().map(|(f, g, c, a)| format!("({}, {}, {}, {})", cs(f), cs(g), cs(c), cs(a))).collect::<Vec<_>>().join(";\n  "))
        }
    )
    .unwrap();
    o
}

pub fn json_section(l: &Layout) -> String {
    format!(
        " \"storage_layout\": {{\"contract_namespace_ok\": {}, \"why\": {}, \"literal\": {}, \"appends\": [{}], \"sites\": [{}]}},",
        l.ns_ok,
        json_str(&l.ns_why),
        json_str(&String::from_utf8_lossy(&l.ns_literal)),
        l.ns_appends.iter().map(|a| json_str(a)).collect::<Vec<_>>().join(", "),
        l.sites.iter().map(|(f, g, c, a)| format!("[{}, {}, {}, {}]", json_str(f), json_str(g), json_str(c), json_str(a))).collect::<Vec<_>>().join(", ")
    )
}
