//! Writers: coq/Generated.v and translator_report.json
use crate::flow::{Builder, Wrapper};
use crate::route::{MatchFn, Routing};
use crate::scan::{ConstVal, Scanned};
use crate::util::*;
use std::collections::BTreeMap;
use std::fmt::Write as _;

const PREAMBLE: &str = r#"From Verif Require Import Base.
From Coq Require Import String.
Local Open Scope string_scope.

(* ---------- vocabulary (fixed text emitted by the translator) ---------- *)

(* where the value of a field of the (re)built struct comes from *)
Inductive src :=
| Old (f : string)                    (* the value field f of the consumed object had before the call *)
| Param (i : nat) (wrapper : string)  (* the i-th non-self parameter; wrapper = "" or e.g. "Some(Box::new(_))" *)
| NoneLit                             (* the literal `None` *)
| Opaque (e : string).                (* NOT RECOGNISED: the expression text *)

(* an argument of a call, resolved against the scopes of the enclosing function *)
Inductive arg :=
| AParam (i : nat)                    (* the i-th non-self parameter of the enclosing function *)
| ABind (i : nat)                     (* the i-th variable bound by the match arm's pattern *)
| ALocal (x : string)                 (* a `let`-bound local of the enclosing function *)
| ASelf
| ASelfField (f : string)
| ARef (a : arg)
| ARefMut (a : arg)
| AOpaque (e : string).               (* NOT RECOGNISED *)

Inductive cfg := CfgFeature (f : string) | CfgOpaque (e : string).

(* binds: for each variable bound by the pattern, in binding order, the tuple index / field name *)
Inductive pat := PVariant (enum kind : string) (binds : list string) | PCatchAll | POpaque (e : string).

Inductive body :=
| BCall (field method : string) (args : list arg)         (* self.<field>.<method>(args) *)
| BSelfCall (method : string) (args : list arg)           (* self.<method>(args) *)
| BParamCall (i : nat) (args : list arg)                  (* <i-th parameter>(args) *)
| BVariant (enum kind : string) (fields : list (string * arg))
| BBail | BUnimplemented | BUnreachable | BPanic
| BOpaque (e : string).                                   (* NOT RECOGNISED *)

Record arm := mk_arm { a_cfg : list cfg; a_pat : pat; a_guard : bool; a_body : body }.

Record matchfn := mk_matchfn {
  m_name : string; m_params : list string; m_lets : list (string * body);
  m_scrutinee : arg; m_arms : list arm; m_ok : bool; m_why : string }.

Record flow := mk_flow {
  f_name : string; f_params : list string; f_shape : string;
  f_fields : list (string * src); f_ok : bool; f_why : string }.

Inductive bstmt :=
| SLetStruct (var ty : string) (fields : list (string * src)) (nested : list (string * string))
| SMethodCall (recv method : string) (args : list arg)
| SReturnVar (var : string)
| SOther (e : string).                                    (* NOT RECOGNISED *)
"#;

fn flows(name: &str, fl: &[crate::flow::Flow], o: &mut String) {
    writeln!(o, "Definition {} : list flow := [", name).unwrap();
    for (i, f) in fl.iter().enumerate() {
        writeln!(o, "  {}{}", f.coq(), if i + 1 < fl.len() { ";" } else { "" }).unwrap();
    }
    writeln!(o, "].\n").unwrap();
}

fn strs(l: &[String]) -> String {
    coq_list(l, |s| cs(s))
}

fn sanitize_ident(s: &str) -> String {
    s.chars().map(|c| if c.is_ascii_alphanumeric() || c == '_' { c } else { '_' }).collect()
}

pub fn generated_v(srcdir: &str, b: &Builder, w: &Wrapper, r: &Routing, features: &[String], sc: &Scanned, problems: &[String]) -> String {
    let mut o = String::new();
    writeln!(o, "(* Generated.v -- REGENERATED on every run by /verif/translator from the Rust sources (`{}`).", srcdir.replace("*)", "* )")).unwrap();
    writeln!(o, "   Do not edit: the file is overwritten whenever its content would change.  The checked-in copy is a snapshot.").unwrap();
    writeln!(o, "   Anything the translator does not recognise is recorded as Opaque / POpaque / BOpaque / SOther / ok := false,").unwrap();
    writeln!(o, "   so that the theorems re-proved about these definitions fail (fail closed). *)").unwrap();
    o.push_str(PREAMBLE);

    writeln!(o, "\n(* ---------- translation status ---------- *)").unwrap();
    writeln!(o, "Definition translation_ok : bool := {}.", coq_bool(problems.is_empty())).unwrap();
    writeln!(o, "Definition translation_problems : list string := {}.", strs(problems)).unwrap();
    writeln!(o, "(* crate features switched on by the harness (closure of verif, staking, stargate, cosmwasm_2_2 over [features] of Cargo.toml) *)").unwrap();
    writeln!(o, "Definition harness_features : list string := {}.", strs(features)).unwrap();

    writeln!(o, "\n(* ---------- AppBuilder (app_builder.rs) ---------- *)").unwrap();
    writeln!(o, "Definition builder_struct_fields : list string := {}.", strs(&b.struct_fields)).unwrap();
    writeln!(o, "Definition app_struct_fields : list string := {}.", strs(&b.app_fields)).unwrap();
    writeln!(o, "Definition router_struct_fields : list string := {}.\n", strs(&b.router_fields)).unwrap();
    flows("builder_ctors", &b.ctors, &mut o);
    flows("builder_steps", &b.steps, &mut o);
    writeln!(o, "(* AppBuilder::build, statement by statement *)").unwrap();
    writeln!(o, "Definition build_params : list string := {}.", strs(&b.build_params)).unwrap();
    writeln!(o, "Definition build_body : list bstmt := [").unwrap();
    for (i, s) in b.build_body.iter().enumerate() {
        writeln!(o, "  {}{}", s.coq(), if i + 1 < b.build_body.len() { ";" } else { "" }).unwrap();
    }
    writeln!(o, "].").unwrap();
    writeln!(o, "(* occurrences of the identifier of build's first parameter in build's body *)").unwrap();
    writeln!(o, "Definition build_init_mentions : nat := {}.", b.build_init_mentions).unwrap();
    writeln!(o, "(* App::init_modules (app.rs) *)").unwrap();
    writeln!(o, "Definition init_modules_params : list string := {}.", strs(&b.init_modules_params)).unwrap();
    writeln!(o, "Definition init_modules_body : body := {}.", b.init_modules_body.coq()).unwrap();
    writeln!(o, "Definition init_modules_mentions : nat := {}.", b.init_modules_mentions).unwrap();

    writeln!(o, "\n(* ---------- ContractWrapper (contracts.rs) ---------- *)").unwrap();
    writeln!(o, "Definition wrapper_struct_fields : list string := {}.\n", strs(&w.struct_fields)).unwrap();
    flows("wrapper_ctors", &w.ctors, &mut o);
    flows("wrapper_steps", &w.steps, &mut o);
    writeln!(o, "(* impl Contract for ContractWrapper: entry point -> fields of self it reads *)").unwrap();
    writeln!(
        o,
        "Definition wrapper_dispatch : list (string * list string) := {}.",
        coq_list(&w.dispatch, |(m, fs)| format!("({}, {})", cs(m), strs(fs)))
    )
    .unwrap();

    writeln!(o, "\n(* ---------- Router (app.rs: impl CosmosRouter for Router) ---------- *)").unwrap();
    for (n, m) in [("route_exec", &r.exec), ("route_query", &r.query), ("route_sudo", &r.sudo)] {
        writeln!(o, "Definition {} : matchfn :=\n  {}.\n", n, m.coq()).unwrap();
    }
    writeln!(o, "Definition sudo_msg_variants : list string := {}.", strs(&r.sudo_kinds)).unwrap();

    writeln!(o, "\n(* ---------- customize_msg / customize_response (contracts.rs) ---------- *)").unwrap();
    let l = &r.lift;
    writeln!(o, "Definition lift_ok : bool := {}.", coq_bool(l.ok)).unwrap();
    writeln!(o, "Definition lift_why : string := {}.", cs(&l.why)).unwrap();
    writeln!(o, "Definition lift_struct : string := {}.", cs(&l.ty)).unwrap();
    writeln!(o, "(* fields of the rebuilt sub-message other than the matched one: Old f = <parameter>.f *)").unwrap();
    writeln!(o, "Definition lift_fields : list (string * src) := {}.", coq_list(&l.fields, |(f, s)| format!("({}, {})", cs(f), s.coq()))).unwrap();
    writeln!(o, "Definition lift_match_field : string := {}.", cs(&l.match_field)).unwrap();
    writeln!(o, "Definition lift_scrutinee : src := {}.", l.scrutinee.coq()).unwrap();
    writeln!(
        o,
        "Definition lift_arms : list arm := {}.",
        if l.arms.is_empty() { "[]".to_string() } else { format!("[\n    {}]", l.arms.iter().map(|a| a.coq()).collect::<Vec<_>>().join(";\n    ")) }
    )
    .unwrap();
    writeln!(o, "Definition response_reads : list string := {}.", strs(&r.response_reads)).unwrap();
    writeln!(o, "Definition response_calls : list string := {}.", strs(&r.response_calls)).unwrap();
    o.push_str(&r.std.coq_section(&r.param_types));

    writeln!(o, "\n(* ---------- constants ---------- *)").unwrap();
    let mut count: BTreeMap<&str, usize> = BTreeMap::new();
    for (_, n, _, _) in &sc.consts {
        *count.entry(n.as_str()).or_insert(0) += 1;
    }
    let mut table = vec![];
    for (file, n, kind, v) in &sc.consts {
        let stem = sanitize_ident(file.trim_end_matches(".rs"));
        let name = if count[n.as_str()] > 1 || n.len() < 3 { format!("{}_{}", stem, sanitize_ident(n)) } else { sanitize_ident(n) };
        match v {
            ConstVal::Bytes(bs) => {
                writeln!(o, "Definition {} : bytes := {}. (* {} {}: {} *)", name, coq_bytes(bs), file, kind, String::from_utf8_lossy(bs).replace("*)", "* )").replace("(*", "( *")).unwrap();
                table.push(format!("({}, {}, {})", cs(file), cs(n), name));
            }
            ConstVal::Num(x) => {
                writeln!(o, "Definition {} : N := {}%N. (* {} *)", name, x, file).unwrap();
            }
        }
    }
    writeln!(o, "Definition byte_constants : list (string * string * bytes) := [{}].", table.join("; ")).unwrap();
    let lit = |l: &[(String, String)]| coq_list(l, |(f, s)| format!("({}, {})", cs(f), coq_bytes(s.as_bytes())));
    writeln!(o, "(* first string-literal argument of Event::new(..) *)").unwrap();
    writeln!(o, "Definition event_type_literals : list (string * bytes) := {}.", lit(&sc.event_types)).unwrap();
    writeln!(o, "(* first string-literal argument of .add_attribute(..) / attr(..) *)").unwrap();
    writeln!(o, "Definition attribute_key_literals : list (string * bytes) := {}.", lit(&sc.attribute_keys)).unwrap();

    o.push_str(&crate::layout::coq_section(&sc.layout));
    writeln!(o, "\n(* ---------- advisory: possible sources of nondeterminism in non-test code (file, what, line) ---------- *)").unwrap();
    writeln!(
        o,
        "Definition nondet_sources : list (string * string * N) := {}.",
        coq_list(&sc.nondet, |(f, w, l)| format!("({}, {}, {}%N)", cs(f), cs(w), l))
    )
    .unwrap();
    writeln!(o, "Definition unparsed_sources : list string := {}.", strs(&sc.unparsed)).unwrap();
    o
}

fn jlist<T, F: Fn(&T) -> String>(l: &[T], f: F) -> String {
    format!("[{}]", l.iter().map(|x| f(x)).collect::<Vec<_>>().join(", "))
}

fn jflows(fl: &[crate::flow::Flow]) -> String {
    jlist(fl, |f| {
        format!(
            "{{\"fn\": {}, \"params\": {}, \"shape\": {}, \"ok\": {}, \"why\": {}, \"fields\": {{{}}}}}",
            json_str(&f.name),
            jlist(&f.params, |p| json_str(p)),
            json_str(&f.shape),
            f.ok,
            json_str(&f.why),
            f.fields.iter().map(|(g, s)| format!("{}: {}", json_str(g), s.json())).collect::<Vec<_>>().join(", ")
        )
    })
}

fn jmatch(m: &MatchFn) -> String {
    format!(
        "{{\"fn\": {}, \"ok\": {}, \"why\": {}, \"params\": {}, \"scrutinee\": {}, \"lets\": {}, \"arms\": {}}}",
        json_str(&m.name),
        m.ok,
        json_str(&m.why),
        jlist(&m.params, |p| json_str(p)),
        json_str(&m.scrutinee.coq()),
        jlist(&m.lets, |(x, b)| format!("[{}, {}]", json_str(x), json_str(&b.coq()))),
        jarms(&m.arms)
    )
}

fn jarms(arms: &[Arm]) -> String {
    jlist(arms, |a| {
        format!(
            "{{\"pattern\": {}, \"binds\": {}, \"cfg\": {}, \"guard\": {}, \"body\": {}}}",
            json_str(&a.pat_text),
            jlist(&a.bind_names, |b| json_str(b)),
            jlist(&a.cfg, |c| json_str(&c.coq())),
            a.guard,
            json_str(&a.body.coq())
        )
    })
}

#[allow(clippy::too_many_arguments)]
pub fn report_json(srcdir: &str, changed: bool, b: &Builder, w: &Wrapper, r: &Routing, features: &[String], sc: &Scanned, problems: &[String]) -> String {
    let mut o = String::new();
    writeln!(o, "{{").unwrap();
    writeln!(o, " \"source\": {},", json_str(srcdir)).unwrap();
    writeln!(o, " \"generated_v_rewritten\": {},", changed).unwrap();
    writeln!(o, " \"translation_ok\": {},", problems.is_empty()).unwrap();
    writeln!(o, " \"problems\": {},", jlist(problems, |p| json_str(p))).unwrap();
    writeln!(o, " \"harness_features\": {},", jlist(features, |p| json_str(p))).unwrap();
    writeln!(o, " \"builder\": {{\"fields\": {}, \"ctors\": {}, \"steps\": {},", jlist(&b.struct_fields, |p| json_str(p)), jflows(&b.ctors), jflows(&b.steps)).unwrap();
    writeln!(
        o,
        "   \"build\": {}, \"build_init_mentions\": {}, \"init_modules\": {}, \"init_modules_mentions\": {}}},",
        jlist(&b.build_body, |s| json_str(&s.coq())),
        b.build_init_mentions,
        json_str(&b.init_modules_body.coq()),
        b.init_modules_mentions
    )
    .unwrap();
    writeln!(
        o,
        " \"wrapper\": {{\"fields\": {}, \"ctors\": {}, \"steps\": {}, \"dispatch\": {}}},",
        jlist(&w.struct_fields, |p| json_str(p)),
        jflows(&w.ctors),
        jflows(&w.steps),
        jlist(&w.dispatch, |(m, fs)| format!("[{}, {}]", json_str(m), jlist(fs, |f| json_str(f))))
    )
    .unwrap();
    writeln!(o, " \"router\": {{\"execute\": {}, \"query\": {}, \"sudo\": {}, \"sudo_msg_variants\": {}}},", jmatch(&r.exec), jmatch(&r.query), jmatch(&r.sudo), jlist(&r.sudo_kinds, |p| json_str(p))).unwrap();
    writeln!(
        o,
        " \"customize_msg\": {{\"ok\": {}, \"why\": {}, \"struct\": {}, \"fields\": {{{}}}, \"match_field\": {}, \"scrutinee\": {}, \"arms\": {}}},",
        r.lift.ok,
        json_str(&r.lift.why),
        json_str(&r.lift.ty),
        r.lift.fields.iter().map(|(g, s)| format!("{}: {}", json_str(g), s.json())).collect::<Vec<_>>().join(", "),
        json_str(&r.lift.match_field),
        r.lift.scrutinee.json(),
        jarms(&r.lift.arms)
    )
    .unwrap();
    writeln!(o, " \"customize_response\": {{\"reads\": {}, \"calls\": {}}},", jlist(&r.response_reads, |p| json_str(p)), jlist(&r.response_calls, |p| json_str(p))).unwrap();
    writeln!(o, "{}", r.std.json_section()).unwrap();
    writeln!(
        o,
        " \"constants\": {},",
        jlist(&sc.consts, |(f, n, k, v)| format!(
            "{{\"file\": {}, \"name\": {}, \"kind\": {}, \"value\": {}}}",
            json_str(f),
            json_str(n),
            json_str(k),
            match v {
                ConstVal::Bytes(b) => json_str(&String::from_utf8_lossy(b)),
                ConstVal::Num(x) => json_str(&x.to_string()),
            }
        ))
    )
    .unwrap();
    writeln!(o, "{}", crate::layout::json_section(&sc.layout)).unwrap();
    writeln!(o, " \"event_type_literals\": {},", jlist(&sc.event_types, |(f, s)| format!("[{}, {}]", json_str(f), json_str(s)))).unwrap();
    writeln!(o, " \"attribute_key_literals\": {},", jlist(&sc.attribute_keys, |(f, s)| format!("[{}, {}]", json_str(f), json_str(s)))).unwrap();
    writeln!(
        o,
        " \"nondeterminism_scan\": {{\"advisory\": true, \"hits\": {}, \"unparsed\": {}}}",
        jlist(&sc.nondet, |(f, w, l)| format!("[{}, {}, {}]", json_str(f), json_str(w), l)),
        jlist(&sc.unparsed, |p| json_str(p))
    )
    .unwrap();
    writeln!(o, "}}").unwrap();
    o
}
