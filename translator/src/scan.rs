//! Constants, event / attribute literals, cargo feature closure and the (advisory) nondeterminism scan.
use crate::util::*;
use std::collections::{BTreeMap, BTreeSet};
use std::path::{Path, PathBuf};
use syn::visit::Visit;

/// transitive closure of the crate-local features enabled by `roots`, read from the [features] table of
/// Cargo.toml with a line parser (no TOML crate offline); empty + a problem when the file is unusable
pub fn feature_closure(cargo_toml: &Path, roots: &[&str], problems: &mut Vec<String>) -> Vec<String> {
    let txt = match std::fs::read_to_string(cargo_toml) {
        Ok(t) => t,
        Err(e) => {
            problems.push(format!("cannot read {}: {}", cargo_toml.display(), e));
            return vec![];
        }
    };
    let mut table: BTreeMap<String, Vec<String>> = BTreeMap::new();
    let mut in_features = false;
    let mut pending = String::new();
    for line in txt.lines() {
        let line = line.split('#').next().unwrap_or("").trim();
        if line.starts_with('[') && pending.is_empty() {
            in_features = line == "[features]";
            continue;
        }
        if !in_features || line.is_empty() {
            continue;
        }
        pending.push_str(line);
        if pending.contains('[') && !pending.contains(']') {
            continue; // multi-line array
        }
        let entry = std::mem::take(&mut pending);
        if let Some((k, v)) = entry.split_once('=') {
            let deps: Vec<String> = v
                .trim()
                .trim_start_matches('[')
                .trim_end_matches(']')
                .split(',')
                .map(|x| x.trim().trim_matches('"').to_string())
                .filter(|x| !x.is_empty())
                .collect();
            table.insert(k.trim().trim_matches('"').to_string(), deps);
        }
    }
    if table.is_empty() {
        problems.push(format!("no [features] table found in {}", cargo_toml.display()));
        return vec![];
    }
    let mut seen: BTreeSet<String> = BTreeSet::new();
    let mut todo: Vec<String> = roots.iter().map(|s| s.to_string()).collect();
    while let Some(f) = todo.pop() {
        if f.contains('/') || f.starts_with("dep:") || !seen.insert(f.clone()) {
            continue;
        }
        match table.get(&f) {
            Some(ds) => todo.extend(ds.iter().cloned()),
            None => problems.push(format!("feature `{}` is not declared in Cargo.toml", f)),
        }
    }
    seen.into_iter().collect()
}

/// every .rs file under src/ except the test trees (path relative to src/)
pub fn all_sources(src: &Path) -> Vec<PathBuf> {
    fn walk(dir: &Path, rel: &Path, out: &mut Vec<PathBuf>) {
        let mut es: Vec<_> = match std::fs::read_dir(dir) {
            Ok(r) => r.filter_map(|e| e.ok()).collect(),
            Err(_) => return,
        };
        es.sort_by_key(|e| e.file_name());
        for e in es {
            let n = e.file_name().to_string_lossy().to_string();
            let p = e.path();
            if p.is_dir() {
                if n == "tests" || n == "test_helpers" {
                    continue;
                }
                walk(&p, &rel.join(&n), out);
            } else if n.ends_with(".rs") {
                out.push(rel.join(&n));
            }
        }
    }
    let mut v = vec![];
    walk(src, Path::new(""), &mut v);
    v
}

#[derive(Clone, Debug)]
pub enum ConstVal {
    Bytes(Vec<u8>),
    Num(u128),
}

pub struct Scanned {
    /// (file, const name, kind: "bytes" | "str" | "storage-key" | "int", value)
    pub consts: Vec<(String, String, String, ConstVal)>,
    pub event_types: Vec<(String, String)>,
    pub attribute_keys: Vec<(String, String)>,
    /// (file, what, line)
    pub nondet: Vec<(String, String, usize)>,
    pub unparsed: Vec<String>,
    /// storage layout facts for Layout.v (C08), see layout.rs
    pub layout: crate::layout::Layout,
}

fn is_cfg_test(attrs: &[syn::Attribute]) -> bool {
    attrs.iter().any(|a| a.path().is_ident("cfg") && norm_tokens(&quote::ToTokens::to_token_stream(a).to_string()).contains("cfg(test)"))
}

fn int_of(e: &syn::Expr) -> Option<u128> {
    match e {
        syn::Expr::Lit(syn::ExprLit { lit: syn::Lit::Int(i), .. }) => i.base10_parse::<u128>().ok(),
        syn::Expr::Paren(p) => int_of(&p.expr),
        syn::Expr::Binary(b) => {
            let (x, y) = (int_of(&b.left)?, int_of(&b.right)?);
            match b.op {
                syn::BinOp::Mul(_) => x.checked_mul(y),
                syn::BinOp::Add(_) => x.checked_add(y),
                syn::BinOp::Sub(_) => x.checked_sub(y),
                _ => None,
            }
        }
        _ => None,
    }
}

fn const_val(e: &syn::Expr) -> Option<(String, ConstVal)> {
    match e {
        syn::Expr::Lit(syn::ExprLit { lit: syn::Lit::ByteStr(b), .. }) => Some(("bytes".into(), ConstVal::Bytes(b.value()))),
        syn::Expr::Lit(syn::ExprLit { lit: syn::Lit::Str(s), .. }) => Some(("str".into(), ConstVal::Bytes(s.value().into_bytes()))),
        syn::Expr::Call(c) if c.args.len() == 1 => match (&*c.func, &c.args[0]) {
            (syn::Expr::Path(p), syn::Expr::Lit(syn::ExprLit { lit: syn::Lit::Str(s), .. })) if last_seg(&p.path) == "new" => {
                Some(("storage-key".into(), ConstVal::Bytes(s.value().into_bytes())))
            }
            _ => None,
        },
        _ => int_of(e).map(|n| ("int".into(), ConstVal::Num(n))),
    }
}

struct Lits<'a> {
    file: &'a str,
    events: &'a mut Vec<(String, String)>,
    attrs: &'a mut Vec<(String, String)>,
}
fn first_str(args: &syn::punctuated::Punctuated<syn::Expr, syn::Token![,]>) -> Option<String> {
    match args.first() {
        Some(syn::Expr::Lit(syn::ExprLit { lit: syn::Lit::Str(s), .. })) => Some(s.value()),
        _ => None,
    }
}
impl<'ast> Visit<'ast> for Lits<'_> {
    fn visit_item_mod(&mut self, m: &'ast syn::ItemMod) {
        if !is_cfg_test(&m.attrs) {
            syn::visit::visit_item_mod(self, m);
        }
    }
    fn visit_item_fn(&mut self, f: &'ast syn::ItemFn) {
        if !is_cfg_test(&f.attrs) {
            syn::visit::visit_item_fn(self, f);
        }
    }
    fn visit_expr_call(&mut self, c: &'ast syn::ExprCall) {
        if let syn::Expr::Path(p) = &*c.func {
            let n = p.path.segments.len();
            let l = last_seg(&p.path);
            if l == "new" && n >= 2 && p.path.segments[n - 2].ident == "Event" {
                if let Some(s) = first_str(&c.args) {
                    self.events.push((self.file.to_string(), s));
                }
            } else if l == "attr" {
                if let Some(s) = first_str(&c.args) {
                    self.attrs.push((self.file.to_string(), s));
                }
            }
        }
        syn::visit::visit_expr_call(self, c);
    }
    fn visit_expr_method_call(&mut self, c: &'ast syn::ExprMethodCall) {
        if c.method == "add_attribute" {
            if let Some(s) = first_str(&c.args) {
                self.attrs.push((self.file.to_string(), s));
            }
        }
        syn::visit::visit_expr_method_call(self, c);
    }
}

const NONDET_EXACT: &[&str] = &[
    "thread_local", "lazy_static", "OnceLock", "OnceCell", "LazyLock", "LazyCell", "HashMap", "HashSet", "RandomState", "SystemTime",
    "Instant", "rand", "thread_rng", "getrandom",
];

fn scan_tokens(ts: proc_macro2::TokenStream, file: &str, out: &mut Vec<(String, String, usize)>) {
    let v: Vec<proc_macro2::TokenTree> = ts.into_iter().collect();
    for (i, t) in v.iter().enumerate() {
        match t {
            proc_macro2::TokenTree::Group(g) => scan_tokens(g.stream(), file, out),
            proc_macro2::TokenTree::Ident(id) => {
                let s = id.to_string();
                let line = id.span().start().line;
                let next_ident = |k: usize| match v.get(i + k) {
                    Some(proc_macro2::TokenTree::Ident(x)) => x.to_string(),
                    _ => String::new(),
                };
                if NONDET_EXACT.contains(&s.as_str()) {
                    out.push((file.to_string(), s.clone(), line));
                } else if s.starts_with("Atomic") {
                    out.push((file.to_string(), s.clone(), line));
                } else if s == "static" && next_ident(1) == "mut" {
                    out.push((file.to_string(), "static mut".into(), line));
                } else if s == "std" && next_ident(3) == "env" {
                    out.push((file.to_string(), "std::env".into(), line));
                }
            }
            _ => {}
        }
    }
}

fn scan_items(items: &[syn::Item], file: &str, sc: &mut Scanned) {
    for it in items {
        let attrs: &[syn::Attribute] = match it {
            syn::Item::Const(x) => &x.attrs,
            syn::Item::Fn(x) => &x.attrs,
            syn::Item::Impl(x) => &x.attrs,
            syn::Item::Mod(x) => &x.attrs,
            syn::Item::Static(x) => &x.attrs,
            syn::Item::Struct(x) => &x.attrs,
            syn::Item::Enum(x) => &x.attrs,
            syn::Item::Trait(x) => &x.attrs,
            syn::Item::Use(x) => &x.attrs,
            syn::Item::Macro(x) => &x.attrs,
            syn::Item::Type(x) => &x.attrs,
            _ => &[],
        };
        if is_cfg_test(attrs) {
            continue;
        }
        match it {
            syn::Item::Const(c) => {
                if let Some((kind, v)) = const_val(&c.expr) {
                    sc.consts.push((file.to_string(), c.ident.to_string(), kind, v));
                }
                scan_tokens(quote::ToTokens::to_token_stream(it), file, &mut sc.nondet);
            }
            syn::Item::Mod(m) => {
                if let Some((_, items)) = &m.content {
                    scan_items(items, file, sc);
                }
            }
            _ => scan_tokens(quote::ToTokens::to_token_stream(it), file, &mut sc.nondet),
        }
    }
}

pub fn scan_sources(src: &Path, files: &[PathBuf]) -> Scanned {
    let mut sc = Scanned { consts: vec![], event_types: vec![], attribute_keys: vec![], nondet: vec![], unparsed: vec![], layout: Default::default() };
    for rel in files {
        let name = rel.to_string_lossy().to_string();
        let txt = match std::fs::read_to_string(src.join(rel)) {
            Ok(t) => t,
            Err(_) => {
                sc.unparsed.push(name);
                continue;
            }
        };
        let file = match syn::parse_file(&txt) {
            Ok(f) => f,
            Err(_) => {
                sc.unparsed.push(name);
                continue;
            }
        };
        scan_items(&file.items, &name, &mut sc);
        crate::layout::scan_file(&name, &file, &mut sc.layout);
        let mut ev = vec![];
        let mut at = vec![];
        Lits { file: &name, events: &mut ev, attrs: &mut at }.visit_file(&file);
        sc.event_types.extend(ev);
        sc.attribute_keys.extend(at);
    }
    sc.event_types.sort();
    sc.event_types.dedup();
    sc.attribute_keys.sort();
    sc.attribute_keys.dedup();
    sc.nondet.sort();
    sc.nondet.dedup();
    sc
}
