//! Field flow of builder-style functions: a tiny symbolic executor over the statement shapes that the
//! `with_*` / constructor / `build` functions use.  Everything else is reported, never guessed.
use crate::util::*;
use std::collections::BTreeMap;
use syn::visit::Visit;

#[derive(Clone, Debug)]
pub struct Flow {
    pub name: String,
    pub params: Vec<String>,
    /// "rebuild" (tail struct literal), "assign" (`mut self; self.f = x; self`), "?" (not recognised)
    pub shape: String,
    pub fields: Vec<(String, Src)>,
    pub ok: bool,
    pub why: String,
}
impl Flow {
    pub fn coq(&self) -> String {
        format!(
            "mk_flow {} {} {} {} {} {}",
            cs(&self.name),
            coq_list(&self.params, |p| cs(p)),
            cs(&self.shape),
            coq_list(&self.fields, |(f, s)| format!("({}, {})", cs(f), s.coq())),
            coq_bool(self.ok),
            cs(&self.why)
        )
    }
}

struct Exec<'a> {
    struct_name: &'a str,
    struct_fields: &'a [String],
    params: Vec<String>,
    env: Vec<(String, Src)>,
    selfv: Option<BTreeMap<String, Src>>,
}

impl Exec<'_> {
    fn lookup(&self, x: &str) -> Option<Src> {
        self.env.iter().rev().find(|(n, _)| n == x).map(|(_, s)| s.clone())
    }

    /// unary constructor calls around a bare parameter: `Some(Box::new(p))`, `customize_fn(p)`, ...
    fn wrapper_of(&self, e: &syn::Expr) -> Option<(usize, String)> {
        match e {
            syn::Expr::Paren(p) => self.wrapper_of(&p.expr),
            syn::Expr::Call(c) if c.args.len() == 1 => {
                let f = match &*c.func {
                    syn::Expr::Path(p) if p.qself.is_none() => text(&p.path),
                    _ => return None,
                };
                let (i, t) = self.wrapper_of(&c.args[0])?;
                Some((i, format!("{}({})", f, t)))
            }
            _ => match single_ident(e).and_then(|x| self.lookup(&x)) {
                Some(Src::Param(i, w)) if w.is_empty() => Some((i, "_".to_string())),
                _ => None,
            },
        }
    }

    fn eval(&self, e: &syn::Expr) -> Src {
        if let Some(x) = single_ident(e) {
            if let Some(s) = self.lookup(&x) {
                return s;
            }
            if x == "None" {
                return Src::NoneLit;
            }
            return Src::Opaque(x);
        }
        if let Some(f) = self_field(e) {
            return match self.selfv.as_ref().and_then(|m| m.get(&f)) {
                Some(s) => s.clone(),
                None => Src::Opaque(format!("self.{}", f)),
            };
        }
        if let Some((i, w)) = self.wrapper_of(e) {
            return Src::Param(i, w);
        }
        Src::Opaque(text(e))
    }

    fn is_self_struct(&self, p: &syn::Path) -> bool {
        let l = last_seg(p);
        p.segments.len() == 1 && (l == self.struct_name || l == "Self")
    }

    /// `Struct { f: e, .. }` evaluated to a field map (only for the struct being built)
    fn eval_struct(&self, s: &syn::ExprStruct) -> Result<BTreeMap<String, Src>, String> {
        if !self.is_self_struct(&s.path) {
            return Err(format!("tail struct literal builds `{}`, not `{}`", text(&s.path), self.struct_name));
        }
        let mut m = BTreeMap::new();
        for fv in &s.fields {
            let name = match &fv.member {
                syn::Member::Named(i) => i.to_string(),
                syn::Member::Unnamed(i) => i.index.to_string(),
            };
            if m.insert(name.clone(), self.eval(&fv.expr)).is_some() {
                return Err(format!("field `{}` listed twice", name));
            }
        }
        if let Some(rest) = &s.rest {
            if single_ident(rest).as_deref() == Some("self") && self.selfv.is_some() {
                for (f, v) in self.selfv.as_ref().unwrap() {
                    m.entry(f.clone()).or_insert_with(|| v.clone());
                }
            } else {
                return Err(format!("struct update base `..{}` is not `self`", text(&**rest)));
            }
        }
        Ok(m)
    }

    fn run(&mut self, block: &syn::Block) -> Result<(String, BTreeMap<String, Src>), String> {
        let n = block.stmts.len();
        for (k, st) in block.stmts.iter().enumerate() {
            let last = k + 1 == n;
            match st {
                syn::Stmt::Local(l) => {
                    let init = match &l.init {
                        Some(i) if i.diverge.is_none() => &*i.expr,
                        _ => return Err(format!("unsupported let: `{}`", text(st))),
                    };
                    let mut pat = &l.pat;
                    if let syn::Pat::Type(pt) = pat {
                        pat = &pt.pat;
                    }
                    match pat {
                        syn::Pat::Struct(ps) if self.is_self_struct(&ps.path) => {
                            if single_ident(init).as_deref() != Some("self") || self.selfv.is_none() {
                                return Err(format!("destructuring of `{}`, not of `self`", text(init)));
                            }
                            for fp in &ps.fields {
                                let m = match &fp.member {
                                    syn::Member::Named(i) => i.to_string(),
                                    syn::Member::Unnamed(i) => i.index.to_string(),
                                };
                                let x = match &*fp.pat {
                                    syn::Pat::Ident(pi) if pi.subpat.is_none() && pi.by_ref.is_none() => pi.ident.to_string(),
                                    other => return Err(format!("field pattern `{}` is not a plain binding", text(other))),
                                };
                                let v = self.selfv.as_ref().unwrap().get(&m).cloned().unwrap_or(Src::Opaque(format!("self.{}", m)));
                                self.env.push((x, v));
                            }
                        }
                        syn::Pat::Ident(pi) if pi.subpat.is_none() && pi.by_ref.is_none() => {
                            let v = self.eval(init);
                            self.env.push((pi.ident.to_string(), v));
                        }
                        other => return Err(format!("unsupported let pattern `{}`", text(other))),
                    }
                }
                syn::Stmt::Expr(syn::Expr::Assign(a), Some(_)) => match self_field(&a.left) {
                    Some(f) if self.selfv.is_some() => {
                        let v = self.eval(&a.right);
                        self.selfv.as_mut().unwrap().insert(f, v);
                    }
                    _ => return Err(format!("unsupported assignment `{}`", text(a))),
                },
                syn::Stmt::Expr(e, None) if last => {
                    let mut e = e;
                    while let syn::Expr::Paren(p) = e {
                        e = &p.expr;
                    }
                    return match e {
                        syn::Expr::Struct(s) => Ok(("rebuild".to_string(), self.eval_struct(s)?)),
                        _ if single_ident(e).as_deref() == Some("self") && self.selfv.is_some() => {
                            Ok(("assign".to_string(), self.selfv.clone().unwrap()))
                        }
                        _ => Err(format!("tail expression `{}` is neither a struct literal nor `self`", text(e))),
                    };
                }
                other => return Err(format!("unsupported statement `{}`", text(other))),
            }
        }
        Err("function body has no tail expression".to_string())
    }
}

pub fn extract_flow(struct_name: &str, struct_fields: &[String], f: &syn::ImplItemFn) -> Flow {
    let name = f.sig.ident.to_string();
    let fail = |params: Vec<String>, why: String| Flow {
        name: name.clone(),
        params,
        shape: "?".into(),
        fields: struct_fields.iter().map(|g| (g.clone(), Src::Opaque(format!("<not translated: {}>", why)))).collect(),
        ok: false,
        why,
    };
    let (recv, params) = match sig_params(&f.sig) {
        Ok(x) => x,
        Err(e) => return fail(vec![], e),
    };
    if recv == Some(false) {
        return fail(params, "receiver is a reference".into());
    }
    let mut ex = Exec {
        struct_name,
        struct_fields,
        params: params.clone(),
        env: params.iter().enumerate().map(|(i, p)| (p.clone(), Src::Param(i, String::new()))).collect(),
        selfv: recv.map(|_| struct_fields.iter().map(|g| (g.clone(), Src::Old(g.clone()))).collect()),
    };
    match ex.run(&f.block) {
        Ok((shape, m)) => {
            let mut fields: Vec<(String, Src)> = vec![];
            let mut why = String::new();
            let mut ok = true;
            for g in ex.struct_fields {
                match m.get(g) {
                    Some(s) => fields.push((g.clone(), s.clone())),
                    None => {
                        ok = false;
                        why = format!("field `{}` is not initialised", g);
                        fields.push((g.clone(), Src::Opaque("<missing>".into())));
                    }
                }
            }
            for (g, s) in &m {
                if !ex.struct_fields.contains(g) {
                    ok = false;
                    why = format!("unknown field `{}`", g);
                    fields.push((g.clone(), s.clone()));
                }
            }
            let _ = &ex.params;
            Flow { name, params, shape, fields, ok, why }
        }
        Err(e) => fail(params, e),
    }
}

/// inherent `impl ... <struct_name><...>` blocks
fn inherent_fns<'a>(file: &'a syn::File, struct_name: &str) -> Vec<&'a syn::ImplItemFn> {
    let mut v = vec![];
    for it in &file.items {
        if let syn::Item::Impl(im) = it {
            if im.trait_.is_none() && type_last_seg(&im.self_ty) == struct_name {
                for x in &im.items {
                    if let syn::ImplItem::Fn(f) = x {
                        v.push(f);
                    }
                }
            }
        }
    }
    v
}

#[derive(Clone, Debug)]
pub enum BStmt {
    /// `let [mut] v = S { .. nested literals flattened with dotted names .. };`
    LetStruct { var: String, ty: String, fields: Vec<(String, Src)>, nested: Vec<(String, String)> },
    /// `v.method(args);`
    MethodCall { recv: String, method: String, args: Vec<Arg> },
    /// tail `v`
    ReturnVar(String),
    Other(String),
}
impl BStmt {
    pub fn coq(&self) -> String {
        match self {
            BStmt::LetStruct { var, ty, fields, nested } => format!(
                "SLetStruct {} {} {} {}",
                cs(var),
                cs(ty),
                coq_list(fields, |(f, s)| format!("({}, {})", cs(f), s.coq())),
                coq_list(nested, |(f, t)| format!("({}, {})", cs(f), cs(t)))
            ),
            BStmt::MethodCall { recv, method, args } => {
                format!("SMethodCall {} {} {}", cs(recv), cs(method), coq_list(args, |a| a.coq()))
            }
            BStmt::ReturnVar(v) => format!("SReturnVar {}", cs(v)),
            BStmt::Other(e) => format!("SOther {}", cs(e)),
        }
    }
}

pub struct Builder {
    pub struct_fields: Vec<String>,
    pub app_fields: Vec<String>,
    pub router_fields: Vec<String>,
    pub ctors: Vec<Flow>,
    pub steps: Vec<Flow>,
    pub build_params: Vec<String>,
    pub build_body: Vec<BStmt>,
    /// occurrences of the init parameter's identifier in `build`
    pub build_init_mentions: usize,
    pub init_modules_params: Vec<String>,
    pub init_modules_body: Body,
    pub init_modules_mentions: usize,
}

struct IdentCount<'a> {
    name: &'a str,
    n: usize,
}
impl<'ast> Visit<'ast> for IdentCount<'_> {
    fn visit_ident(&mut self, i: &'ast proc_macro2::Ident) {
        if i == self.name {
            self.n += 1;
        }
    }
    fn visit_macro(&mut self, m: &'ast syn::Macro) {
        // identifiers inside macro invocations count as well
        fn walk(ts: proc_macro2::TokenStream, name: &str, n: &mut usize) {
            for t in ts {
                match t {
                    proc_macro2::TokenTree::Ident(i) if i == name => *n += 1,
                    proc_macro2::TokenTree::Group(g) => walk(g.stream(), name, n),
                    _ => {}
                }
            }
        }
        walk(m.tokens.clone(), self.name, &mut self.n);
    }
}
fn count_ident(b: &syn::Block, name: &str) -> usize {
    let mut c = IdentCount { name, n: 0 };
    c.visit_block(b);
    c.n
}

fn flatten_struct(ex: &Exec, prefix: &str, s: &syn::ExprStruct, out: &mut Vec<(String, Src)>, nested: &mut Vec<(String, String)>) -> Result<(), String> {
    if let Some(r) = &s.rest {
        return Err(format!("struct update syntax `..{}`", text(&**r)));
    }
    for fv in &s.fields {
        let name = match &fv.member {
            syn::Member::Named(i) => i.to_string(),
            syn::Member::Unnamed(i) => i.index.to_string(),
        };
        let full = if prefix.is_empty() { name } else { format!("{}.{}", prefix, name) };
        match &fv.expr {
            syn::Expr::Struct(inner) => {
                nested.push((full.clone(), text(&inner.path)));
                flatten_struct(ex, &full, inner, out, nested)?
            }
            e => out.push((full, ex.eval(e))),
        }
    }
    Ok(())
}

pub fn extract_builder(app_builder: &syn::File, app: &syn::File, problems: &mut Vec<String>) -> Builder {
    let struct_fields = struct_fields(app_builder, "AppBuilder").unwrap_or_else(|| {
        problems.push("struct AppBuilder with named fields not found in app_builder.rs".into());
        vec![]
    });
    let app_fields = struct_fields_or(app, "App", problems);
    let router_fields = struct_fields_or(app, "Router", problems);
    let mut b = Builder {
        struct_fields: struct_fields.clone(),
        app_fields,
        router_fields,
        ctors: vec![],
        steps: vec![],
        build_params: vec![],
        build_body: vec![BStmt::Other("<fn build not found>".into())],
        build_init_mentions: 0,
        init_modules_params: vec![],
        init_modules_body: Body::Opaque("<fn init_modules not found>".into()),
        init_modules_mentions: 0,
    };
    let mut seen_build = false;
    for f in inherent_fns(app_builder, "AppBuilder") {
        let name = f.sig.ident.to_string();
        let recv = f.sig.inputs.iter().any(|a| matches!(a, syn::FnArg::Receiver(_)));
        if name == "build" {
            seen_build = true;
            extract_build(&struct_fields, f, &mut b);
        } else if recv {
            // every function that consumes or borrows the builder is a step (a reference receiver is
            // reported by extract_flow as not translated)
            b.steps.push(extract_flow("AppBuilder", &struct_fields, f));
        } else {
            b.ctors.push(extract_flow("AppBuilder", &struct_fields, f));
        }
    }
    if !seen_build {
        problems.push("AppBuilder::build not found".into());
    }
    // App::init_modules
    let mut seen_init = false;
    for f in inherent_fns(app, "App") {
        if f.sig.ident == "init_modules" {
            seen_init = true;
            match sig_params(&f.sig) {
                Ok((_, ps)) => {
                    b.init_modules_params = ps.clone();
                    b.init_modules_body = match (f.block.stmts.len(), f.block.stmts.last()) {
                        (1, Some(syn::Stmt::Expr(syn::Expr::Call(c), None))) => {
                            match single_ident(&c.func).and_then(|x| ps.iter().position(|p| *p == x)) {
                                Some(i) => {
                                    let sc = Scope { params: &ps, locals: &[], binds: &[] };
                                    Body::ParamCall { i, args: c.args.iter().map(|a| arg_of(a, &sc)).collect() }
                                }
                                None => Body::Opaque(text(&f.block)),
                            }
                        }
                        _ => Body::Opaque(text(&f.block)),
                    };
                    if let Some(p) = ps.first() {
                        b.init_modules_mentions = count_ident(&f.block, p);
                    }
                }
                Err(e) => b.init_modules_body = Body::Opaque(e),
            }
        }
    }
    if !seen_init {
        problems.push("App::init_modules not found".into());
    }
    for fl in b.ctors.iter().chain(b.steps.iter()) {
        if !fl.ok {
            problems.push(format!("AppBuilder::{}: {}", fl.name, fl.why));
        }
    }
    b
}

fn struct_fields_or(file: &syn::File, name: &str, problems: &mut Vec<String>) -> Vec<String> {
    struct_fields(file, name).unwrap_or_else(|| {
        problems.push(format!("struct {} with named fields not found", name));
        vec![]
    })
}

fn extract_build(struct_fields: &[String], f: &syn::ImplItemFn, b: &mut Builder) {
    let (recv, params) = match sig_params(&f.sig) {
        Ok(x) => x,
        Err(e) => {
            b.build_body = vec![BStmt::Other(e)];
            return;
        }
    };
    b.build_params = params.clone();
    if recv != Some(true) {
        b.build_body = vec![BStmt::Other("build does not take self by value".into())];
        return;
    }
    let ex = Exec {
        struct_name: "AppBuilder",
        struct_fields,
        params: params.clone(),
        env: params.iter().enumerate().map(|(i, p)| (p.clone(), Src::Param(i, String::new()))).collect(),
        selfv: Some(struct_fields.iter().map(|g| (g.clone(), Src::Old(g.clone()))).collect()),
    };
    let mut body = vec![];
    let mut locals: Vec<String> = vec![];
    let n = f.block.stmts.len();
    for (k, st) in f.block.stmts.iter().enumerate() {
        let last = k + 1 == n;
        let s = match st {
            syn::Stmt::Local(l) => {
                let mut pat = &l.pat;
                if let syn::Pat::Type(pt) = pat {
                    pat = &pt.pat;
                }
                match (pat, &l.init) {
                    (syn::Pat::Ident(pi), Some(init)) if pi.subpat.is_none() && pi.by_ref.is_none() && init.diverge.is_none() => match &*init.expr {
                        syn::Expr::Struct(s) => {
                            let mut fields = vec![];
                            let mut nested = vec![];
                            match flatten_struct(&ex, "", s, &mut fields, &mut nested) {
                                Ok(()) => {
                                    locals.push(pi.ident.to_string());
                                    BStmt::LetStruct { var: pi.ident.to_string(), ty: text(&s.path), fields, nested }
                                }
                                Err(e) => BStmt::Other(format!("{}: {}", e, text(st))),
                            }
                        }
                        _ => BStmt::Other(text(st)),
                    },
                    _ => BStmt::Other(text(st)),
                }
            }
            syn::Stmt::Expr(syn::Expr::MethodCall(mc), Some(_)) => match single_ident(&mc.receiver) {
                Some(r) if locals.contains(&r) && mc.turbofish.is_none() => {
                    let sc = Scope { params: &params, locals: &locals, binds: &[] };
                    BStmt::MethodCall { recv: r, method: mc.method.to_string(), args: mc.args.iter().map(|a| arg_of(a, &sc)).collect() }
                }
                _ => BStmt::Other(text(st)),
            },
            syn::Stmt::Expr(e, None) if last => match single_ident(e) {
                Some(v) if locals.contains(&v) => BStmt::ReturnVar(v),
                _ => BStmt::Other(text(st)),
            },
            other => BStmt::Other(text(other)),
        };
        body.push(s);
    }
    b.build_body = body;
    if let Some(p) = params.first() {
        b.build_init_mentions = count_ident(&f.block, p);
    }
}

pub struct Wrapper {
    pub struct_fields: Vec<String>,
    pub ctors: Vec<Flow>,
    pub steps: Vec<Flow>,
    /// `impl Contract for ContractWrapper`: method -> the fields of self it reads
    pub dispatch: Vec<(String, Vec<String>)>,
}

struct SelfFields(Vec<String>);
impl<'ast> Visit<'ast> for SelfFields {
    fn visit_expr_field(&mut self, f: &'ast syn::ExprField) {
        if let (Some(x), syn::Member::Named(m)) = (single_ident(&f.base), &f.member) {
            if x == "self" && !self.0.contains(&m.to_string()) {
                self.0.push(m.to_string());
            }
        }
        syn::visit::visit_expr_field(self, f);
    }
}

pub fn extract_wrapper(contracts: &syn::File, problems: &mut Vec<String>) -> Wrapper {
    let struct_fields = struct_fields(contracts, "ContractWrapper").unwrap_or_else(|| {
        problems.push("struct ContractWrapper with named fields not found in contracts.rs".into());
        vec![]
    });
    let mut w = Wrapper { struct_fields: struct_fields.clone(), ctors: vec![], steps: vec![], dispatch: vec![] };
    for f in inherent_fns(contracts, "ContractWrapper") {
        let recv = f.sig.inputs.iter().any(|a| matches!(a, syn::FnArg::Receiver(_)));
        let fl = extract_flow("ContractWrapper", &struct_fields, f);
        if !fl.ok {
            problems.push(format!("ContractWrapper::{}: {}", fl.name, fl.why));
        }
        if recv {
            w.steps.push(fl);
        } else {
            w.ctors.push(fl);
        }
    }
    let mut found = false;
    for it in &contracts.items {
        if let syn::Item::Impl(im) = it {
            let is_contract = im.trait_.as_ref().map(|(_, p, _)| last_seg(p) == "Contract").unwrap_or(false);
            if is_contract && type_last_seg(&im.self_ty) == "ContractWrapper" {
                found = true;
                for x in &im.items {
                    if let syn::ImplItem::Fn(f) = x {
                        let mut v = SelfFields(vec![]);
                        v.visit_block(&f.block);
                        w.dispatch.push((f.sig.ident.to_string(), v.0));
                    }
                }
            }
        }
    }
    if !found {
        problems.push("impl Contract for ContractWrapper not found".into());
    }
    w
}
