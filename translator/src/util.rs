//! text helpers, the vocabulary shared by the extractors (mirrored 1:1 by the preamble of Generated.v)
use quote::ToTokens;

/// token text with the spaces removed that proc-macro2 inserts (kept only between identifier characters)
pub fn norm_tokens(s: &str) -> String {
    let cs: Vec<char> = s.chars().collect();
    let isid = |c: char| c.is_alphanumeric() || c == '_';
    let mut out = String::new();
    let mut i = 0;
    while i < cs.len() {
        let c = cs[i];
        if c.is_whitespace() {
            let mut j = i;
            while j < cs.len() && cs[j].is_whitespace() {
                j += 1;
            }
            if let (Some(p), Some(&n)) = (out.chars().last(), cs.get(j)) {
                if isid(p) && isid(n) {
                    out.push(' ');
                }
            }
            i = j;
            continue;
        }
        out.push(c);
        i += 1;
    }
    out
}

pub fn text<T: ToTokens>(t: &T) -> String {
    let s = norm_tokens(&t.to_token_stream().to_string());
    if s.chars().count() > 240 {
        let mut t: String = s.chars().take(240).collect();
        t.push_str("...");
        t
    } else {
        s
    }
}

/// Coq string literal (ASCII only; `"` doubled)
pub fn cs(s: &str) -> String {
    let mut o = String::from("\"");
    for c in s.chars() {
        if c == '"' {
            o.push_str("\"\"");
        } else if c.is_ascii() && !c.is_ascii_control() {
            o.push(c);
        } else {
            o.push('?');
        }
    }
    o.push('"');
    o
}

pub fn coq_list<T, F: Fn(&T) -> String>(l: &[T], f: F) -> String {
    let mut s = String::from("[");
    for (i, x) in l.iter().enumerate() {
        if i > 0 {
            s.push_str("; ");
        }
        s.push_str(&f(x));
    }
    s.push(']');
    s
}

pub fn coq_bytes(b: &[u8]) -> String {
    coq_list(b, |x| format!("{}%N", x))
}

pub fn coq_bool(b: bool) -> &'static str {
    if b {
        "true"
    } else {
        "false"
    }
}

pub fn json_str(s: &str) -> String {
    let mut o = String::from("\"");
    for c in s.chars() {
        match c {
            '"' => o.push_str("\\\""),
            '\\' => o.push_str("\\\\"),
            '\n' => o.push_str("\\n"),
            '\t' => o.push_str("\\t"),
            c if (c as u32) < 0x20 => o.push_str(&format!("\\u{:04x}", c as u32)),
            c => o.push(c),
        }
    }
    o.push('"');
    o
}

// ---------------------------------------------------------------------------------------------
// vocabulary
// ---------------------------------------------------------------------------------------------

/// where the value of a field of the (re)built struct comes from
#[derive(Clone, Debug, PartialEq)]
pub enum Src {
    /// the value field `f` of the consumed object had before the call (`self.f`, the binding destructured
    /// from `self`'s field `f`, or `<param>.f` in customize_msg)
    Old(String),
    /// the i-th non-self parameter; `wrapper` = "" or the unary constructor calls around it with `_` for
    /// the parameter, e.g. "Some(Box::new(_))"
    Param(usize, String),
    /// the literal `None`
    NoneLit,
    /// anything else: the expression text
    Opaque(String),
}
impl Src {
    pub fn coq(&self) -> String {
        match self {
            Src::Old(f) => format!("Old {}", cs(f)),
            Src::Param(i, w) => format!("Param {} {}", i, cs(w)),
            Src::NoneLit => "NoneLit".into(),
            Src::Opaque(e) => format!("Opaque {}", cs(e)),
        }
    }
    pub fn json(&self) -> String {
        json_str(&self.coq())
    }
}

/// an argument expression, resolved against the scopes of the function it occurs in
#[derive(Clone, Debug, PartialEq)]
pub enum Arg {
    Param(usize),
    Bind(usize),
    Local(String),
    SelfV,
    SelfField(String),
    Ref(Box<Arg>),
    RefMut(Box<Arg>),
    Opaque(String),
}
impl Arg {
    pub fn coq(&self) -> String {
        match self {
            Arg::Param(i) => format!("AParam {}", i),
            Arg::Bind(i) => format!("ABind {}", i),
            Arg::Local(x) => format!("ALocal {}", cs(x)),
            Arg::SelfV => "ASelf".into(),
            Arg::SelfField(f) => format!("ASelfField {}", cs(f)),
            Arg::Ref(a) => format!("ARef ({})", a.coq()),
            Arg::RefMut(a) => format!("ARefMut ({})", a.coq()),
            Arg::Opaque(e) => format!("AOpaque {}", cs(e)),
        }
    }
}

#[derive(Clone, Debug, PartialEq)]
pub enum Cfg {
    Feature(String),
    Opaque(String),
}
impl Cfg {
    pub fn coq(&self) -> String {
        match self {
            Cfg::Feature(f) => format!("CfgFeature {}", cs(f)),
            Cfg::Opaque(e) => format!("CfgOpaque {}", cs(e)),
        }
    }
}

#[derive(Clone, Debug, PartialEq)]
pub enum Pat {
    /// `Enum::Kind(x)` / `Enum::Kind { f, g }` / `Enum::Kind`: `binds` = for each bound variable (in
    /// binding order) the tuple index or field name it is bound to
    Variant { en: String, kind: String, binds: Vec<String> },
    /// `_` or a plain identifier: matches everything
    CatchAll,
    Opaque(String),
}
impl Pat {
    pub fn coq(&self) -> String {
        match self {
            Pat::Variant { en, kind, binds } => format!("PVariant {} {} {}", cs(en), cs(kind), coq_list(binds, |b| cs(b))),
            Pat::CatchAll => "PCatchAll".into(),
            Pat::Opaque(e) => format!("POpaque {}", cs(e)),
        }
    }
}

#[derive(Clone, Debug, PartialEq)]
pub enum Body {
    /// `self.<field>.<method>(args)`
    Call { field: String, method: String, args: Vec<Arg> },
    /// `self.<method>(args)`
    SelfCall { method: String, args: Vec<Arg> },
    /// `<i-th parameter>(args)`
    ParamCall { i: usize, args: Vec<Arg> },
    /// `Enum::Kind(a)` / `Enum::Kind { f: a }`
    Variant { en: String, kind: String, fields: Vec<(String, Arg)> },
    Bail,
    Unimplemented,
    Unreachable,
    Panic,
    Opaque(String),
}
impl Body {
    pub fn coq(&self) -> String {
        let args = |a: &Vec<Arg>| coq_list(a, |x| x.coq());
        match self {
            Body::Call { field, method, args: a } => format!("BCall {} {} {}", cs(field), cs(method), args(a)),
            Body::SelfCall { method, args: a } => format!("BSelfCall {} {}", cs(method), args(a)),
            Body::ParamCall { i, args: a } => format!("BParamCall {} {}", i, args(a)),
            Body::Variant { en, kind, fields } => {
                format!("BVariant {} {} {}", cs(en), cs(kind), coq_list(fields, |(f, a)| format!("({}, {})", cs(f), a.coq())))
            }
            Body::Bail => "BBail".into(),
            Body::Unimplemented => "BUnimplemented".into(),
            Body::Unreachable => "BUnreachable".into(),
            Body::Panic => "BPanic".into(),
            Body::Opaque(e) => format!("BOpaque {}", cs(e)),
        }
    }
}

#[derive(Clone, Debug)]
pub struct Arm {
    pub cfg: Vec<Cfg>,
    pub pat: Pat,
    pub guard: bool,
    pub body: Body,
    /// source text, for the report only
    pub pat_text: String,
    pub bind_names: Vec<String>,
}
impl Arm {
    pub fn coq(&self) -> String {
        format!(
            "mk_arm {} ({}) {} ({})",
            coq_list(&self.cfg, |c| c.coq()),
            self.pat.coq(),
            coq_bool(self.guard),
            self.body.coq()
        )
    }
}

/// names in scope while an argument list is resolved: innermost first = pattern bindings, then
/// `let`-bound locals, then the function's parameters
pub struct Scope<'a> {
    pub params: &'a [String],
    pub locals: &'a [String],
    pub binds: &'a [String],
}

pub fn single_ident(e: &syn::Expr) -> Option<String> {
    match e {
        syn::Expr::Path(p) if p.qself.is_none() && p.path.segments.len() == 1 && p.path.leading_colon.is_none() => {
            let s = &p.path.segments[0];
            if s.arguments.is_none() {
                Some(s.ident.to_string())
            } else {
                None
            }
        }
        syn::Expr::Paren(p) => single_ident(&p.expr),
        syn::Expr::Group(g) => single_ident(&g.expr),
        _ => None,
    }
}

/// `self.f`
pub fn self_field(e: &syn::Expr) -> Option<String> {
    match e {
        syn::Expr::Field(f) => match (&*f.base, &f.member) {
            (b, syn::Member::Named(m)) if single_ident(b).as_deref() == Some("self") => Some(m.to_string()),
            _ => None,
        },
        syn::Expr::Paren(p) => self_field(&p.expr),
        _ => None,
    }
}

pub fn arg_of(e: &syn::Expr, sc: &Scope) -> Arg {
    if let Some(x) = single_ident(e) {
        if x == "self" {
            return Arg::SelfV;
        }
        if let Some(i) = sc.binds.iter().rposition(|b| *b == x) {
            return Arg::Bind(i);
        }
        if sc.locals.iter().any(|l| *l == x) {
            return Arg::Local(x);
        }
        if let Some(i) = sc.params.iter().position(|p| *p == x) {
            return Arg::Param(i);
        }
        return Arg::Opaque(x);
    }
    if let Some(f) = self_field(e) {
        return Arg::SelfField(f);
    }
    match e {
        syn::Expr::Reference(r) => {
            let inner = Box::new(arg_of(&r.expr, sc));
            if r.mutability.is_some() {
                Arg::RefMut(inner)
            } else {
                Arg::Ref(inner)
            }
        }
        syn::Expr::Paren(p) => arg_of(&p.expr, sc),
        _ => Arg::Opaque(text(e)),
    }
}

/// the non-self parameters (names) and the receiver kind: None = no receiver, Some(true) = by value
pub fn sig_params(sig: &syn::Signature) -> Result<(Option<bool>, Vec<String>), String> {
    let mut recv = None;
    let mut ps = vec![];
    for a in &sig.inputs {
        match a {
            syn::FnArg::Receiver(r) => recv = Some(r.reference.is_none()),
            syn::FnArg::Typed(t) => match &*t.pat {
                syn::Pat::Ident(pi) if pi.subpat.is_none() && pi.by_ref.is_none() => ps.push(pi.ident.to_string()),
                other => return Err(format!("parameter pattern `{}` is not a plain identifier", text(other))),
            },
        }
    }
    Ok((recv, ps))
}

pub fn last_seg(p: &syn::Path) -> String {
    p.segments.last().map(|s| s.ident.to_string()).unwrap_or_default()
}

pub fn type_last_seg(t: &syn::Type) -> String {
    match t {
        syn::Type::Path(p) => last_seg(&p.path),
        _ => String::new(),
    }
}

/// named fields of `struct <name>` in a file
pub fn struct_fields(file: &syn::File, name: &str) -> Option<Vec<String>> {
    for it in &file.items {
        if let syn::Item::Struct(s) = it {
            if s.ident == name {
                if let syn::Fields::Named(n) = &s.fields {
                    return Some(n.named.iter().map(|f| f.ident.as_ref().unwrap().to_string()).collect());
                }
            }
        }
    }
    None
}

pub fn enum_variants(file: &syn::File, name: &str) -> Option<Vec<String>> {
    for it in &file.items {
        if let syn::Item::Enum(e) = it {
            if e.ident == name {
                return Some(e.variants.iter().map(|v| v.ident.to_string()).collect());
            }
        }
    }
    None
}

/// `#[cfg(...)]` attributes of a match arm; lint / doc attributes are ignored, any other attribute is
/// reported as an opaque gate
pub fn cfg_gates(attrs: &[syn::Attribute]) -> Vec<Cfg> {
    let mut out = vec![];
    for a in attrs {
        let name = last_seg(a.path());
        match name.as_str() {
            "allow" | "warn" | "deny" | "expect" | "doc" | "skip" | "rustfmt" => {}
            "cfg" => match &a.meta {
                syn::Meta::List(l) => match syn::parse2::<syn::Meta>(l.tokens.clone()) {
                    Ok(m) => cfg_meta(&m, &mut out),
                    Err(_) => out.push(Cfg::Opaque(text(a))),
                },
                _ => out.push(Cfg::Opaque(text(a))),
            },
            _ => out.push(Cfg::Opaque(text(a))),
        }
    }
    out
}

fn cfg_meta(m: &syn::Meta, out: &mut Vec<Cfg>) {
    match m {
        syn::Meta::NameValue(nv) if nv.path.is_ident("feature") => match &nv.value {
            syn::Expr::Lit(syn::ExprLit { lit: syn::Lit::Str(s), .. }) => out.push(Cfg::Feature(s.value())),
            _ => out.push(Cfg::Opaque(text(m))),
        },
        syn::Meta::List(l) if l.path.is_ident("all") => {
            let parsed = l.parse_args_with(syn::punctuated::Punctuated::<syn::Meta, syn::Token![,]>::parse_terminated);
            match parsed {
                Ok(ms) => {
                    for x in ms.iter() {
                        cfg_meta(x, out)
                    }
                }
                Err(_) => out.push(Cfg::Opaque(text(m))),
            }
        }
        _ => out.push(Cfg::Opaque(text(m))),
    }
}
