//! Match-arm tables: Router::execute / query / sudo (impl CosmosRouter for Router) and customize_msg.
use crate::util::*;
use syn::visit::Visit;

#[derive(Clone, Debug)]
pub struct MatchFn {
    pub name: String,
    pub params: Vec<String>,
    /// `let x = self.m(args);` statements before the match
    pub lets: Vec<(String, Body)>,
    pub scrutinee: Arg,
    pub arms: Vec<Arm>,
    pub ok: bool,
    pub why: String,
}
impl MatchFn {
    fn missing(name: &str, why: &str) -> Self {
        MatchFn { name: name.into(), params: vec![], lets: vec![], scrutinee: Arg::Opaque("?".into()), arms: vec![], ok: false, why: why.into() }
    }
    pub fn coq(&self) -> String {
        format!(
            "mk_matchfn {} {} {} ({}) {} {} {}",
            cs(&self.name),
            coq_list(&self.params, |p| cs(p)),
            coq_list(&self.lets, |(x, b)| format!("({}, {})", cs(x), b.coq())),
            self.scrutinee.coq(),
            if self.arms.is_empty() { "[]".to_string() } else { format!("[\n    {}]", self.arms.iter().map(|a| a.coq()).collect::<Vec<_>>().join(";\n    ")) },
            coq_bool(self.ok),
            cs(&self.why)
        )
    }
}

pub struct Lift {
    pub params: Vec<String>,
    /// struct built by the tail expression
    pub ty: String,
    /// the fields other than the one holding the match
    pub fields: Vec<(String, Src)>,
    pub match_field: String,
    pub scrutinee: Src,
    pub arms: Vec<Arm>,
    pub ok: bool,
    pub why: String,
}

pub struct Routing {
    pub exec: MatchFn,
    pub query: MatchFn,
    pub sudo: MatchFn,
    pub sudo_kinds: Vec<String>,
    pub lift: Lift,
    /// fields of the parameter read by customize_response
    pub response_reads: Vec<String>,
    /// functions through which customize_response maps the sub-messages
    pub response_calls: Vec<String>,
    /// cosmwasm-std's real enums / structs (C17)
    pub std: StdInfo,
    /// parameter types of Router::execute / query / sudo
    pub param_types: Vec<(String, Vec<String>)>,
}

fn pattern(p: &syn::Pat) -> (Pat, Vec<String>) {
    let variant_path = |path: &syn::Path| -> Option<(String, String)> {
        let n = path.segments.len();
        if n >= 2 {
            Some((path.segments[n - 2].ident.to_string(), path.segments[n - 1].ident.to_string()))
        } else {
            None
        }
    };
    match p {
        syn::Pat::Wild(_) => (Pat::CatchAll, vec![]),
        syn::Pat::Ident(pi) if pi.subpat.is_none() && pi.by_ref.is_none() => (Pat::CatchAll, vec![pi.ident.to_string()]),
        syn::Pat::Paren(pp) => pattern(&pp.pat),
        syn::Pat::Path(pp) if pp.qself.is_none() => match variant_path(&pp.path) {
            Some((en, kind)) => (Pat::Variant { en, kind, binds: vec![] }, vec![]),
            None => (Pat::Opaque(text(p)), vec![]),
        },
        syn::Pat::TupleStruct(ts) if ts.qself.is_none() => {
            let (en, kind) = match variant_path(&ts.path) {
                Some(x) => x,
                None => return (Pat::Opaque(text(p)), vec![]),
            };
            let mut binds = vec![];
            let mut names = vec![];
            for (i, e) in ts.elems.iter().enumerate() {
                match e {
                    syn::Pat::Wild(_) => {}
                    syn::Pat::Ident(pi) if pi.subpat.is_none() && pi.by_ref.is_none() => {
                        binds.push(i.to_string());
                        names.push(pi.ident.to_string());
                    }
                    _ => return (Pat::Opaque(text(p)), vec![]),
                }
            }
            (Pat::Variant { en, kind, binds }, names)
        }
        syn::Pat::Struct(ps) if ps.qself.is_none() => {
            let (en, kind) = match variant_path(&ps.path) {
                Some(x) => x,
                None => return (Pat::Opaque(text(p)), vec![]),
            };
            let mut binds = vec![];
            let mut names = vec![];
            for fp in &ps.fields {
                let m = match &fp.member {
                    syn::Member::Named(i) => i.to_string(),
                    syn::Member::Unnamed(i) => i.index.to_string(),
                };
                match &*fp.pat {
                    syn::Pat::Wild(_) => {}
                    syn::Pat::Ident(pi) if pi.subpat.is_none() && pi.by_ref.is_none() => {
                        binds.push(m);
                        names.push(pi.ident.to_string());
                    }
                    _ => return (Pat::Opaque(text(p)), vec![]),
                }
            }
            (Pat::Variant { en, kind, binds }, names)
        }
        _ => (Pat::Opaque(text(p)), vec![]),
    }
}

fn body_of(e: &syn::Expr, sc: &Scope) -> Body {
    match e {
        syn::Expr::Paren(p) => body_of(&p.expr, sc),
        syn::Expr::Block(b) if b.label.is_none() && b.block.stmts.len() == 1 => match &b.block.stmts[0] {
            syn::Stmt::Expr(x, None) => body_of(x, sc),
            syn::Stmt::Macro(m) => macro_body(&m.mac, e),
            _ => Body::Opaque(text(e)),
        },
        syn::Expr::MethodCall(mc) if mc.turbofish.is_none() => {
            let args: Vec<Arg> = mc.args.iter().map(|a| arg_of(a, sc)).collect();
            if let Some(field) = self_field(&mc.receiver) {
                Body::Call { field, method: mc.method.to_string(), args }
            } else if single_ident(&mc.receiver).as_deref() == Some("self") {
                Body::SelfCall { method: mc.method.to_string(), args }
            } else {
                Body::Opaque(text(e))
            }
        }
        syn::Expr::Call(c) => match &*c.func {
            syn::Expr::Path(p) if p.qself.is_none() && p.path.segments.len() >= 2 => {
                let n = p.path.segments.len();
                Body::Variant {
                    en: p.path.segments[n - 2].ident.to_string(),
                    kind: p.path.segments[n - 1].ident.to_string(),
                    fields: c.args.iter().enumerate().map(|(i, a)| (i.to_string(), arg_of(a, sc))).collect(),
                }
            }
            _ => Body::Opaque(text(e)),
        },
        syn::Expr::Struct(s) if s.rest.is_none() && s.qself.is_none() && s.path.segments.len() >= 2 => {
            let n = s.path.segments.len();
            Body::Variant {
                en: s.path.segments[n - 2].ident.to_string(),
                kind: s.path.segments[n - 1].ident.to_string(),
                fields: s
                    .fields
                    .iter()
                    .map(|fv| {
                        let m = match &fv.member {
                            syn::Member::Named(i) => i.to_string(),
                            syn::Member::Unnamed(i) => i.index.to_string(),
                        };
                        (m, arg_of(&fv.expr, sc))
                    })
                    .collect(),
            }
        }
        syn::Expr::Macro(m) => macro_body(&m.mac, e),
        _ => Body::Opaque(text(e)),
    }
}

fn macro_body(m: &syn::Macro, e: &syn::Expr) -> Body {
    match last_seg(&m.path).as_str() {
        "bail" => Body::Bail,
        "unimplemented" => Body::Unimplemented,
        "unreachable" => Body::Unreachable,
        "panic" => Body::Panic,
        _ => Body::Opaque(text(e)),
    }
}

fn arms_of(m: &syn::ExprMatch, params: &[String], locals: &[String]) -> Vec<Arm> {
    m.arms
        .iter()
        .map(|arm| {
            let (pat, names) = pattern(&arm.pat);
            let sc = Scope { params, locals, binds: &names };
            Arm {
                cfg: cfg_gates(&arm.attrs),
                pat,
                guard: arm.guard.is_some(),
                body: body_of(&arm.body, &sc),
                pat_text: text(&arm.pat),
                bind_names: names,
            }
        })
        .collect()
}

fn match_fn(f: &syn::ImplItemFn) -> MatchFn {
    let name = f.sig.ident.to_string();
    let (_, params) = match sig_params(&f.sig) {
        Ok(x) => x,
        Err(e) => return MatchFn::missing(&name, &e),
    };
    let mut lets: Vec<(String, Body)> = vec![];
    let mut locals: Vec<String> = vec![];
    let n = f.block.stmts.len();
    for (k, st) in f.block.stmts.iter().enumerate() {
        let last = k + 1 == n;
        match st {
            syn::Stmt::Local(l) if !last => {
                let x = match &l.pat {
                    syn::Pat::Ident(pi) if pi.subpat.is_none() && pi.by_ref.is_none() => pi.ident.to_string(),
                    other => {
                        let mut r = MatchFn::missing(&name, &format!("unsupported let pattern `{}`", text(other)));
                        r.params = params;
                        return r;
                    }
                };
                let sc = Scope { params: &params, locals: &locals, binds: &[] };
                let b = match &l.init {
                    Some(i) if i.diverge.is_none() => body_of(&i.expr, &sc),
                    _ => Body::Opaque(text(st)),
                };
                lets.push((x.clone(), b));
                locals.push(x);
            }
            syn::Stmt::Expr(syn::Expr::Match(m), None) if last => {
                let sc = Scope { params: &params, locals: &locals, binds: &[] };
                return MatchFn {
                    name,
                    scrutinee: arg_of(&m.expr, &sc),
                    arms: arms_of(m, &params, &locals),
                    params,
                    lets,
                    ok: true,
                    why: String::new(),
                };
            }
            other => {
                let mut r = MatchFn::missing(&name, &format!("body is not `let*; match`: `{}`", text(other)));
                r.params = params;
                return r;
            }
        }
    }
    let mut r = MatchFn::missing(&name, "empty body");
    r.params = params;
    r
}

struct ParamReads<'a> {
    param: &'a str,
    fields: Vec<String>,
    calls: Vec<String>,
}
impl<'ast> Visit<'ast> for ParamReads<'_> {
    fn visit_expr_field(&mut self, f: &'ast syn::ExprField) {
        if let (Some(x), syn::Member::Named(m)) = (single_ident(&f.base), &f.member) {
            if x == self.param && !self.fields.contains(&m.to_string()) {
                self.fields.push(m.to_string());
            }
        }
        syn::visit::visit_expr_field(self, f);
    }
    fn visit_expr_path(&mut self, p: &'ast syn::ExprPath) {
        // function items passed by name, e.g. `.map(customize_msg::<C>)`
        if let Some(s) = p.path.segments.last() {
            let n = s.ident.to_string();
            if n.starts_with("customize_") && !self.calls.contains(&n) {
                self.calls.push(n);
            }
        }
    }
}

fn free_fn<'a>(file: &'a syn::File, name: &str) -> Option<&'a syn::ItemFn> {
    file.items.iter().find_map(|it| match it {
        syn::Item::Fn(f) if f.sig.ident == name => Some(f),
        _ => None,
    })
}

fn extract_lift(contracts: &syn::File) -> Lift {
    let bad = |why: String| Lift {
        params: vec![],
        ty: String::new(),
        fields: vec![],
        match_field: String::new(),
        scrutinee: Src::Opaque("?".into()),
        arms: vec![],
        ok: false,
        why,
    };
    let f = match free_fn(contracts, "customize_msg") {
        Some(f) => f,
        None => return bad("fn customize_msg not found in contracts.rs".into()),
    };
    let params = match sig_params(&f.sig) {
        Ok((None, ps)) if ps.len() == 1 => ps,
        _ => return bad("customize_msg does not take exactly one plain parameter".into()),
    };
    let p = &params[0];
    let s = match (f.block.stmts.len(), f.block.stmts.last()) {
        (1, Some(syn::Stmt::Expr(syn::Expr::Struct(s), None))) if s.rest.is_none() => s,
        _ => return bad("body of customize_msg is not a single struct literal".into()),
    };
    let param_field = |e: &syn::Expr| -> Option<String> {
        match e {
            syn::Expr::Field(fe) => match (&fe.member, single_ident(&fe.base)) {
                (syn::Member::Named(m), Some(b)) if b == *p => Some(m.to_string()),
                _ => None,
            },
            _ => None,
        }
    };
    let mut l = Lift {
        params: params.clone(),
        ty: text(&s.path),
        fields: vec![],
        match_field: String::new(),
        scrutinee: Src::Opaque("<no match>".into()),
        arms: vec![],
        ok: true,
        why: String::new(),
    };
    let mut n_match = 0;
    for fv in &s.fields {
        let name = match &fv.member {
            syn::Member::Named(i) => i.to_string(),
            syn::Member::Unnamed(i) => i.index.to_string(),
        };
        match &fv.expr {
            syn::Expr::Match(m) => {
                n_match += 1;
                l.match_field = name;
                l.scrutinee = match param_field(&m.expr) {
                    Some(g) => Src::Old(g),
                    None => Src::Opaque(text(&*m.expr)),
                };
                l.arms = arms_of(m, &params, &[]);
            }
            e => l.fields.push((
                name,
                match param_field(e) {
                    Some(g) => Src::Old(g),
                    None => Src::Opaque(text(e)),
                },
            )),
        }
    }
    if n_match != 1 {
        l.ok = false;
        l.why = format!("{} match expressions among the fields of the struct literal", n_match);
    }
    l
}

pub fn extract_routing(app: &syn::File, contracts: &syn::File, repo_src: &std::path::Path, problems: &mut Vec<String>) -> Routing {
    let mut exec = MatchFn::missing("execute", "impl CosmosRouter for Router: fn execute not found");
    let mut query = MatchFn::missing("query", "impl CosmosRouter for Router: fn query not found");
    let mut sudo = MatchFn::missing("sudo", "impl CosmosRouter for Router: fn sudo not found");
    for it in &app.items {
        if let syn::Item::Impl(im) = it {
            let is_router = im.trait_.as_ref().map(|(_, p, _)| last_seg(p) == "CosmosRouter").unwrap_or(false);
            if is_router && type_last_seg(&im.self_ty) == "Router" {
                for x in &im.items {
                    if let syn::ImplItem::Fn(f) = x {
                        match f.sig.ident.to_string().as_str() {
                            "execute" => exec = match_fn(f),
                            "query" => query = match_fn(f),
                            "sudo" => sudo = match_fn(f),
                            _ => {}
                        }
                    }
                }
            }
        }
    }
    for m in [&exec, &query, &sudo] {
        if !m.ok {
            problems.push(format!("Router::{}: {}", m.name, m.why));
        }
    }
    let sudo_kinds = enum_variants(app, "SudoMsg").unwrap_or_else(|| {
        problems.push("enum SudoMsg not found in app.rs".into());
        vec![]
    });
    let lift = extract_lift(contracts);
    if !lift.ok {
        problems.push(format!("customize_msg: {}", lift.why));
    }
    let (response_reads, response_calls) = match free_fn(contracts, "customize_response") {
        Some(f) => match sig_params(&f.sig) {
            Ok((None, ps)) if ps.len() == 1 => {
                let mut v = ParamReads { param: &ps[0], fields: vec![], calls: vec![] };
                v.visit_block(&f.block);
                (v.fields, v.calls)
            }
            _ => {
                problems.push("customize_response does not take exactly one plain parameter".into());
                (vec![], vec![])
            }
        },
        None => {
            problems.push("fn customize_response not found in contracts.rs".into());
            (vec![], vec![])
        }
    };
    // cosmwasm-std facts are reported through cwstd_ok (not through `problems`: translation_ok keeps its meaning for C20)
    let std = extract_std(repo_src, &["verif", "staking", "stargate", "cosmwasm_2_2"]);
    let param_types = router_param_types(app);
    Routing { exec, query, sudo, sudo_kinds, lift, response_reads, response_calls, std, param_types }
}

// ---------------------------------------------------------------------------------------------
// cosmwasm-std (the version pinned by /repo/Cargo.lock): the REAL variant lists of CosmosMsg and
// QueryRequest (with their cfg gates and field names) and the field lists of SubMsg / Response, so that
// "for every kind" in Routing.v is checked against the enums the crate is compiled with, not against a
// hand-written list.  Fail closed: anything not found => cwstd_ok := false.
// ---------------------------------------------------------------------------------------------
pub struct StdInfo {
    pub ok: bool,
    pub why: String,
    /// e.g. "cosmwasm-std-2.2.2"
    pub source: String,
    /// features cosmwasm-std is compiled with by the harness (closure, including `default`)
    pub features: Vec<String>,
    /// (variant, cfg gates, field names: "0","1",.. for tuple variants)
    pub cosmos_msg: Vec<(String, Vec<Cfg>, Vec<String>)>,
    pub query_request: Vec<(String, Vec<Cfg>, Vec<String>)>,
    pub submsg_fields: Vec<String>,
    pub response_fields: Vec<String>,
}

fn features_table(cargo_toml: &std::path::Path) -> Option<std::collections::BTreeMap<String, Vec<String>>> {
    let txt = std::fs::read_to_string(cargo_toml).ok()?;
    let mut table = std::collections::BTreeMap::new();
    let mut in_features = false;
    let mut pending = String::new();
    for line in txt.lines() {
        let line = line.split('#').next().unwrap_or("").trim();
        if line.starts_with('[') && pending.is_empty() {
            in_features = line == "[features]";
            continue;
        }
        if !in_features || line.is_empty() {
            continue;
        }
        pending.push_str(line);
        if pending.contains('[') && !pending.contains(']') {
            continue;
        }
        let entry = std::mem::take(&mut pending);
        if let Some((k, v)) = entry.split_once('=') {
            let deps: Vec<String> = v
                .trim()
                .trim_start_matches('[')
                .trim_end_matches(']')
                .split(',')
                .map(|x| x.trim().trim_matches('"').to_string())
                .filter(|x| !x.is_empty())
                .collect();
            table.insert(k.trim().trim_matches('"').to_string(), deps);
        }
    }
    if table.is_empty() {
        None
    } else {
        Some(table)
    }
}

fn only_cfg(attrs: &[syn::Attribute]) -> Vec<Cfg> {
    let v: Vec<syn::Attribute> = attrs.iter().filter(|a| last_seg(a.path()) == "cfg").cloned().collect();
    cfg_gates(&v)
}

fn field_names(f: &syn::Fields) -> Vec<String> {
    match f {
        syn::Fields::Unit => vec![],
        syn::Fields::Unnamed(u) => (0..u.unnamed.len()).map(|i| i.to_string()).collect(),
        syn::Fields::Named(n) => n.named.iter().map(|x| x.ident.as_ref().unwrap().to_string()).collect(),
    }
}

pub fn extract_std(repo_src: &std::path::Path, harness_roots: &[&str]) -> StdInfo {
    let mut s = StdInfo { ok: true, why: String::new(), source: String::new(), features: vec![], cosmos_msg: vec![], query_request: vec![], submsg_fields: vec![], response_fields: vec![] };
    let fail = |s: &mut StdInfo, why: String| {
        if s.ok {
            s.ok = false;
            s.why = why;
        }
    };
    // 1. version from Cargo.lock
    let repo = repo_src.join("..");
    let lock = std::fs::read_to_string(repo.join("Cargo.lock")).unwrap_or_default();
    let mut version: Option<String> = None;
    let mut lines = lock.lines();
    while let Some(l) = lines.next() {
        if l.trim() == "name = \"cosmwasm-std\"" {
            if let Some(v) = lines.next() {
                version = v.trim().strip_prefix("version = \"").and_then(|x| x.strip_suffix('"')).map(|x| x.to_string());
            }
            break;
        }
    }
    let version = match version {
        Some(v) => v,
        None => {
            fail(&mut s, "cosmwasm-std not found in Cargo.lock".into());
            return s;
        }
    };
    s.source = format!("cosmwasm-std-{}", version);
    // 2. the unpacked registry source
    let mut roots: Vec<std::path::PathBuf> = vec![];
    if let Ok(p) = std::env::var("VERIF_COSMWASM_STD") {
        roots.push(p.into());
    }
    let cargo_home = std::env::var("CARGO_HOME").ok().map(std::path::PathBuf::from).or_else(|| std::env::var("HOME").ok().map(|h| std::path::PathBuf::from(h).join(".cargo")));
    if let Some(ch) = cargo_home {
        if let Ok(rd) = std::fs::read_dir(ch.join("registry/src")) {
            let mut ds: Vec<_> = rd.filter_map(|e| e.ok()).map(|e| e.path().join(&s.source)).collect();
            ds.sort();
            roots.extend(ds);
        }
    }
    let dir = match roots.into_iter().find(|d| d.join("Cargo.toml").is_file() && d.join("src").is_dir()) {
        Some(d) => d,
        None => {
            let w = format!("source of {} not found under $CARGO_HOME/registry/src", s.source);
            fail(&mut s, w);
            return s;
        }
    };
    // 3. features: what cw-multi-test's harness features switch on in cosmwasm-std, what the harness asks for
    //    directly (same names), and `default`; closed under cosmwasm-std's own [features] table
    let std_table = match features_table(&dir.join("Cargo.toml")) {
        Some(t) => t,
        None => {
            fail(&mut s, "no [features] table in cosmwasm-std's Cargo.toml".into());
            return s;
        }
    };
    let mut todo: Vec<String> = vec!["default".into()];
    if let Some(t) = features_table(&repo.join("Cargo.toml")) {
        let mut seen = std::collections::BTreeSet::new();
        let mut q: Vec<String> = harness_roots.iter().map(|x| x.to_string()).collect();
        while let Some(f) = q.pop() {
            if let Some(x) = f.strip_prefix("cosmwasm-std/") {
                todo.push(x.to_string());
                continue;
            }
            if f.contains('/') || f.starts_with("dep:") || !seen.insert(f.clone()) {
                continue;
            }
            if let Some(ds) = t.get(&f) {
                q.extend(ds.iter().cloned());
            }
        }
    } else {
        fail(&mut s, "cannot read the [features] table of the crate's Cargo.toml".into());
    }
    for r in harness_roots {
        if std_table.contains_key(*r) {
            todo.push(r.to_string());
        }
    }
    let mut seen = std::collections::BTreeSet::new();
    while let Some(f) = todo.pop() {
        if f.contains('/') || f.starts_with("dep:") || !seen.insert(f.clone()) {
            continue;
        }
        if let Some(ds) = std_table.get(&f) {
            todo.extend(ds.iter().cloned());
        }
    }
    s.features = seen.into_iter().collect();
    // 4. the items
    fn walk(d: &std::path::Path, out: &mut Vec<std::path::PathBuf>) {
        if let Ok(rd) = std::fs::read_dir(d) {
            let mut es: Vec<_> = rd.filter_map(|e| e.ok()).map(|e| e.path()).collect();
            es.sort();
            for p in es {
                if p.is_dir() {
                    walk(&p, out);
                } else if p.extension().map(|x| x == "rs").unwrap_or(false) {
                    out.push(p);
                }
            }
        }
    }
    let mut files = vec![];
    walk(&dir.join("src"), &mut files);
    let mut found = [0usize; 4];
    for p in files {
        let txt = match std::fs::read_to_string(&p) {
            Ok(t) => t,
            Err(_) => continue,
        };
        if !(txt.contains("enum CosmosMsg") || txt.contains("enum QueryRequest") || txt.contains("struct SubMsg") || txt.contains("struct Response")) {
            continue;
        }
        let file = match syn::parse_file(&txt) {
            Ok(f) => f,
            Err(e) => {
                fail(&mut s, format!("cannot parse {}: {}", p.display(), e));
                continue;
            }
        };
        for it in &file.items {
            match it {
                syn::Item::Enum(e) if e.ident == "CosmosMsg" || e.ident == "QueryRequest" => {
                    let vs: Vec<(String, Vec<Cfg>, Vec<String>)> = e.variants.iter().map(|v| (v.ident.to_string(), only_cfg(&v.attrs), field_names(&v.fields))).collect();
                    if e.ident == "CosmosMsg" {
                        s.cosmos_msg = vs;
                        found[0] += 1;
                    } else {
                        s.query_request = vs;
                        found[1] += 1;
                    }
                }
                syn::Item::Struct(st) if st.ident == "SubMsg" || st.ident == "Response" => {
                    let fs = field_names(&st.fields);
                    if st.ident == "SubMsg" {
                        s.submsg_fields = fs;
                        found[2] += 1;
                    } else {
                        s.response_fields = fs;
                        found[3] += 1;
                    }
                }
                _ => {}
            }
        }
    }
    for (i, n) in ["enum CosmosMsg", "enum QueryRequest", "struct SubMsg", "struct Response"].iter().enumerate() {
        if found[i] != 1 {
            let w = format!("{} found {} times in {}", n, found[i], s.source);
            fail(&mut s, w);
        }
    }
    s
}

/// the parameter types of Router::execute / query / sudo as written in the source (roles are read off
/// the TYPES, so renaming a parameter changes nothing)
pub fn router_param_types(app: &syn::File) -> Vec<(String, Vec<String>)> {
    let mut out = vec![];
    for it in &app.items {
        if let syn::Item::Impl(im) = it {
            let is_router = im.trait_.as_ref().map(|(_, p, _)| last_seg(p) == "CosmosRouter").unwrap_or(false);
            if is_router && type_last_seg(&im.self_ty) == "Router" {
                for x in &im.items {
                    if let syn::ImplItem::Fn(f) = x {
                        let n = f.sig.ident.to_string();
                        if n == "execute" || n == "query" || n == "sudo" {
                            let tys: Vec<String> = f
                                .sig
                                .inputs
                                .iter()
                                .filter_map(|a| match a {
                                    syn::FnArg::Typed(t) => Some(text(&*t.ty)),
                                    _ => None,
                                })
                                .collect();
                            out.push((n, tys));
                        }
                    }
                }
            }
        }
    }
    out
}

impl StdInfo {
    pub fn coq_section(&self, param_types: &[(String, Vec<String>)]) -> String {
        use std::fmt::Write as _;
        let mut o = String::new();
        let vs = |l: &[(String, Vec<Cfg>, Vec<String>)]| coq_list(l, |(k, c, f)| format!("({}, {}, {})", cs(k), coq_list(c, |x| x.coq()), coq_list(f, |x| cs(x))));
        writeln!(o, "\n(* ---------- cosmwasm-std as pinned by Cargo.lock: the real enums / structs (C17) ---------- *)").unwrap();
        writeln!(o, "Definition cwstd_ok : bool := {}.", coq_bool(self.ok)).unwrap();
        writeln!(o, "Definition cwstd_why : string := {}.", cs(&self.why)).unwrap();
        writeln!(o, "Definition cwstd_source : string := {}.", cs(&self.source)).unwrap();
        writeln!(o, "(* features cosmwasm-std is compiled with by the harness (closure over its own [features], `default` included) *)").unwrap();
        writeln!(o, "Definition cwstd_features : list string := {}.", coq_list(&self.features, |x| cs(x))).unwrap();
        writeln!(o, "(* (variant, cfg gates, fields: \"0\",\"1\",.. for tuple variants) in declaration order *)").unwrap();
        writeln!(o, "Definition cosmos_msg_variants : list (string * list cfg * list string) := {}.", vs(&self.cosmos_msg)).unwrap();
        writeln!(o, "Definition query_request_variants : list (string * list cfg * list string) := {}.", vs(&self.query_request)).unwrap();
        writeln!(o, "Definition submsg_struct_fields : list string := {}.", coq_list(&self.submsg_fields, |x| cs(x))).unwrap();
        writeln!(o, "Definition response_struct_fields : list string := {}.", coq_list(&self.response_fields, |x| cs(x))).unwrap();
        writeln!(o, "(* types of the non-self parameters of Router::execute / query / sudo, as written *)").unwrap();
        writeln!(
            o,
            "Definition router_param_types : list (string * list string) := {}.",
            coq_list(param_types, |(n, t)| format!("({}, {})", cs(n), coq_list(t, |x| cs(x))))
        )
        .unwrap();
        o
    }
    pub fn json_section(&self) -> String {
        let vs = |l: &[(String, Vec<Cfg>, Vec<String>)]| {
            format!("[{}]", l.iter().map(|(k, c, f)| format!("[{}, {}, {}]", json_str(k), json_str(&coq_list(c, |x| x.coq())), json_str(&f.join(",")))).collect::<Vec<_>>().join(", "))
        };
        format!(
            " \"cosmwasm_std\": {{\"ok\": {}, \"why\": {}, \"source\": {}, \"features\": [{}], \"cosmos_msg\": {}, \"query_request\": {}}},",
            self.ok,
            json_str(&self.why),
            json_str(&self.source),
            self.features.iter().map(|x| json_str(x)).collect::<Vec<_>>().join(", "),
            vs(&self.cosmos_msg),
            vs(&self.query_request)
        )
    }
}
