//! Match-arm tables: Router::execute / query / sudo (impl CosmosRouter for Router) and customize_msg.
use crate::util::*;
use syn::visit::Visit;

#[derive(Clone, Debug)]
pub struct MatchFn {
    pub name: String,
    pub params: Vec<String>,
    /// `let x = self.m(args);` statements before the match
    pub lets: Vec<(String, Body)>,
    pub scrutinee: Arg,
    pub arms: Vec<Arm>,
    pub ok: bool,
    pub why: String,
}
impl MatchFn {
    fn missing(name: &str, why: &str) -> Self {
        MatchFn { name: name.into(), params: vec![], lets: vec![], scrutinee: Arg::Opaque("?".into()), arms: vec![], ok: false, why: why.into() }
    }
    pub fn coq(&self) -> String {
        format!(
            "mk_matchfn {} {} {} ({}) {} {} {}",
            cs(&self.name),
            coq_list(&self.params, |p| cs(p)),
            coq_list(&self.lets, |(x, b)| format!("({}, {})", cs(x), b.coq())),
            self.scrutinee.coq(),
            if self.arms.is_empty() { "[]".to_string() } else { format!("[\n    {}]", self.arms.iter().map(|a| a.coq()).collect::<Vec<_>>().join(";\n    ")) },
            coq_bool(self.ok),
            cs(&self.why)
        )
    }
}

pub struct Lift {
    pub params: Vec<String>,
    /// struct built by the tail expression
    pub ty: String,
    /// the fields other than the one holding the match
    pub fields: Vec<(String, Src)>,
    pub match_field: String,
    pub scrutinee: Src,
    pub arms: Vec<Arm>,
    pub ok: bool,
    pub why: String,
}

pub struct Routing {
    pub exec: MatchFn,
    pub query: MatchFn,
    pub sudo: MatchFn,
    pub sudo_kinds: Vec<String>,
    pub lift: Lift,
    /// fields of the parameter read by customize_response
    pub response_reads: Vec<String>,
    /// functions through which customize_response maps the sub-messages
    pub response_calls: Vec<String>,
}

fn pattern(p: &syn::Pat) -> (Pat, Vec<String>) {
    let variant_path = |path: &syn::Path| -> Option<(String, String)> {
        let n = path.segments.len();
        if n >= 2 {
            Some((path.segments[n - 2].ident.to_string(), path.segments[n - 1].ident.to_string()))
        } else {
            None
        }
    };
    match p {
        syn::Pat::Wild(_) => (Pat::CatchAll, vec![]),
        syn::Pat::Ident(pi) if pi.subpat.is_none() && pi.by_ref.is_none() => (Pat::CatchAll, vec![pi.ident.to_string()]),
        syn::Pat::Paren(pp) => pattern(&pp.pat),
        syn::Pat::Path(pp) if pp.qself.is_none() => match variant_path(&pp.path) {
            Some((en, kind)) => (Pat::Variant { en, kind, binds: vec![] }, vec![]),
            None => (Pat::Opaque(text(p)), vec![]),
        },
        syn::Pat::TupleStruct(ts) if ts.qself.is_none() => {
            let (en, kind) = match variant_path(&ts.path) {
                Some(x) => x,
                None => return (Pat::Opaque(text(p)), vec![]),
            };
            let mut binds = vec![];
            let mut names = vec![];
            for (i, e) in ts.elems.iter().enumerate() {
                match e {
                    syn::Pat::Wild(_) => {}
                    syn::Pat::Ident(pi) if pi.subpat.is_none() && pi.by_ref.is_none() => {
                        binds.push(i.to_string());
                        names.push(pi.ident.to_string());
                    }
                    _ => return (Pat::Opaque(text(p)), vec![]),
                }
            }
            (Pat::Variant { en, kind, binds }, names)
        }
        syn::Pat::Struct(ps) if ps.qself.is_none() => {
            let (en, kind) = match variant_path(&ps.path) {
                Some(x) => x,
                None => return (Pat::Opaque(text(p)), vec![]),
            };
            let mut binds = vec![];
            let mut names = vec![];
            for fp in &ps.fields {
                let m = match &fp.member {
                    syn::Member::Named(i) => i.to_string(),
                    syn::Member::Unnamed(i) => i.index.to_string(),
                };
                match &*fp.pat {
                    syn::Pat::Wild(_) => {}
                    syn::Pat::Ident(pi) if pi.subpat.is_none() && pi.by_ref.is_none() => {
                        binds.push(m);
                        names.push(pi.ident.to_string());
                    }
                    _ => return (Pat::Opaque(text(p)), vec![]),
                }
            }
            (Pat::Variant { en, kind, binds }, names)
        }
        _ => (Pat::Opaque(text(p)), vec![]),
    }
}

fn body_of(e: &syn::Expr, sc: &Scope) -> Body {
    match e {
        syn::Expr::Paren(p) => body_of(&p.expr, sc),
        syn::Expr::Block(b) if b.label.is_none() && b.block.stmts.len() == 1 => match &b.block.stmts[0] {
            syn::Stmt::Expr(x, None) => body_of(x, sc),
            syn::Stmt::Macro(m) => macro_body(&m.mac, e),
            _ => Body::Opaque(text(e)),
        },
        syn::Expr::MethodCall(mc) if mc.turbofish.is_none() => {
            let args: Vec<Arg> = mc.args.iter().map(|a| arg_of(a, sc)).collect();
            if let Some(field) = self_field(&mc.receiver) {
                Body::Call { field, method: mc.method.to_string(), args }
            } else if single_ident(&mc.receiver).as_deref() == Some("self") {
                Body::SelfCall { method: mc.method.to_string(), args }
            } else {
                Body::Opaque(text(e))
            }
        }
        syn::Expr::Call(c) => match &*c.func {
            syn::Expr::Path(p) if p.qself.is_none() && p.path.segments.len() >= 2 => {
                let n = p.path.segments.len();
                Body::Variant {
                    en: p.path.segments[n - 2].ident.to_string(),
                    kind: p.path.segments[n - 1].ident.to_string(),
                    fields: c.args.iter().enumerate().map(|(i, a)| (i.to_string(), arg_of(a, sc))).collect(),
                }
            }
            _ => Body::Opaque(text(e)),
        },
        syn::Expr::Struct(s) if s.rest.is_none() && s.qself.is_none() && s.path.segments.len() >= 2 => {
            let n = s.path.segments.len();
            Body::Variant {
                en: s.path.segments[n - 2].ident.to_string(),
                kind: s.path.segments[n - 1].ident.to_string(),
                fields: s
                    .fields
                    .iter()
                    .map(|fv| {
                        let m = match &fv.member {
                            syn::Member::Named(i) => i.to_string(),
                            syn::Member::Unnamed(i) => i.index.to_string(),
                        };
                        (m, arg_of(&fv.expr, sc))
                    })
                    .collect(),
            }
        }
        syn::Expr::Macro(m) => macro_body(&m.mac, e),
        _ => Body::Opaque(text(e)),
    }
}

fn macro_body(m: &syn::Macro, e: &syn::Expr) -> Body {
    match last_seg(&m.path).as_str() {
        "bail" => Body::Bail,
        "unimplemented" => Body::Unimplemented,
        "unreachable" => Body::Unreachable,
        "panic" => Body::Panic,
        _ => Body::Opaque(text(e)),
    }
}

fn arms_of(m: &syn::ExprMatch, params: &[String], locals: &[String]) -> Vec<Arm> {
    m.arms
        .iter()
        .map(|arm| {
            let (pat, names) = pattern(&arm.pat);
            let sc = Scope { params, locals, binds: &names };
            Arm {
                cfg: cfg_gates(&arm.attrs),
                pat,
                guard: arm.guard.is_some(),
                body: body_of(&arm.body, &sc),
                pat_text: text(&arm.pat),
                bind_names: names,
            }
        })
        .collect()
}

fn match_fn(f: &syn::ImplItemFn) -> MatchFn {
    let name = f.sig.ident.to_string();
    let (_, params) = match sig_params(&f.sig) {
        Ok(x) => x,
        Err(e) => return MatchFn::missing(&name, &e),
    };
    let mut lets: Vec<(String, Body)> = vec![];
    let mut locals: Vec<String> = vec![];
    let n = f.block.stmts.len();
    for (k, st) in f.block.stmts.iter().enumerate() {
        let last = k + 1 == n;
        match st {
            syn::Stmt::Local(l) if !last => {
                let x = match &l.pat {
                    syn::Pat::Ident(pi) if pi.subpat.is_none() && pi.by_ref.is_none() => pi.ident.to_string(),
                    other => {
                        let mut r = MatchFn::missing(&name, &format!("unsupported let pattern `{}`", text(other)));
                        r.params = params;
                        return r;
                    }
                };
                let sc = Scope { params: &params, locals: &locals, binds: &[] };
                let b = match &l.init {
                    Some(i) if i.diverge.is_none() => body_of(&i.expr, &sc),
                    _ => Body::Opaque(text(st)),
                };
                lets.push((x.clone(), b));
                locals.push(x);
            }
            syn::Stmt::Expr(syn::Expr::Match(m), None) if last => {
                let sc = Scope { params: &params, locals: &locals, binds: &[] };
                return MatchFn {
                    name,
                    scrutinee: arg_of(&m.expr, &sc),
                    arms: arms_of(m, &params, &locals),
                    params,
                    lets,
                    ok: true,
                    why: String::new(),
                };
            }
            other => {
                let mut r = MatchFn::missing(&name, &format!("body is not `let*; match`: `{}`", text(other)));
                r.params = params;
                return r;
            }
        }
    }
    let mut r = MatchFn::missing(&name, "empty body");
    r.params = params;
    r
}

struct ParamReads<'a> {
    param: &'a str,
    fields: Vec<String>,
    calls: Vec<String>,
}
impl<'ast> Visit<'ast> for ParamReads<'_> {
    fn visit_expr_field(&mut self, f: &'ast syn::ExprField) {
        if let (Some(x), syn::Member::Named(m)) = (single_ident(&f.base), &f.member) {
            if x == self.param && !self.fields.contains(&m.to_string()) {
                self.fields.push(m.to_string());
            }
        }
        syn::visit::visit_expr_field(self, f);
    }
    fn visit_expr_path(&mut self, p: &'ast syn::ExprPath) {
        // function items passed by name, e.g. `.map(customize_msg::<C>)`
        if let Some(s) = p.path.segments.last() {
            let n = s.ident.to_string();
            if n.starts_with("customize_") && !self.calls.contains(&n) {
                self.calls.push(n);
            }
        }
    }
}

fn free_fn<'a>(file: &'a syn::File, name: &str) -> Option<&'a syn::ItemFn> {
    file.items.iter().find_map(|it| match it {
        syn::Item::Fn(f) if f.sig.ident == name => Some(f),
        _ => None,
    })
}

fn extract_lift(contracts: &syn::File) -> Lift {
    let bad = |why: String| Lift {
        params: vec![],
        ty: String::new(),
        fields: vec![],
        match_field: String::new(),
        scrutinee: Src::Opaque("?".into()),
        arms: vec![],
        ok: false,
        why,
    };
    let f = match free_fn(contracts, "customize_msg") {
        Some(f) => f,
        None => return bad("fn customize_msg not found in contracts.rs".into()),
    };
    let params = match sig_params(&f.sig) {
        Ok((None, ps)) if ps.len() == 1 => ps,
        _ => return bad("customize_msg does not take exactly one plain parameter".into()),
    };
    let p = &params[0];
    let s = match (f.block.stmts.len(), f.block.stmts.last()) {
        (1, Some(syn::Stmt::Expr(syn::Expr::Struct(s), None))) if s.rest.is_none() => s,
        _ => return bad("body of customize_msg is not a single struct literal".into()),
    };
    let param_field = |e: &syn::Expr| -> Option<String> {
        match e {
            syn::Expr::Field(fe) => match (&fe.member, single_ident(&fe.base)) {
                (syn::Member::Named(m), Some(b)) if b == *p => Some(m.to_string()),
                _ => None,
            },
            _ => None,
        }
    };
    let mut l = Lift {
        params: params.clone(),
        ty: text(&s.path),
        fields: vec![],
        match_field: String::new(),
        scrutinee: Src::Opaque("<no match>".into()),
        arms: vec![],
        ok: true,
        why: String::new(),
    };
    let mut n_match = 0;
    for fv in &s.fields {
        let name = match &fv.member {
            syn::Member::Named(i) => i.to_string(),
            syn::Member::Unnamed(i) => i.index.to_string(),
        };
        match &fv.expr {
            syn::Expr::Match(m) => {
                n_match += 1;
                l.match_field = name;
                l.scrutinee = match param_field(&m.expr) {
                    Some(g) => Src::Old(g),
                    None => Src::Opaque(text(&*m.expr)),
                };
                l.arms = arms_of(m, &params, &[]);
            }
            e => l.fields.push((
                name,
                match param_field(e) {
                    Some(g) => Src::Old(g),
                    None => Src::Opaque(text(e)),
                },
            )),
        }
    }
    if n_match != 1 {
        l.ok = false;
        l.why = format!("{} match expressions among the fields of the struct literal", n_match);
    }
    l
}

pub fn extract_routing(app: &syn::File, contracts: &syn::File, problems: &mut Vec<String>) -> Routing {
    let mut exec = MatchFn::missing("execute", "impl CosmosRouter for Router: fn execute not found");
    let mut query = MatchFn::missing("query", "impl CosmosRouter for Router: fn query not found");
    let mut sudo = MatchFn::missing("sudo", "impl CosmosRouter for Router: fn sudo not found");
    for it in &app.items {
        if let syn::Item::Impl(im) = it {
            let is_router = im.trait_.as_ref().map(|(_, p, _)| last_seg(p) == "CosmosRouter").unwrap_or(false);
            if is_router && type_last_seg(&im.self_ty) == "Router" {
                for x in &im.items {
                    if let syn::ImplItem::Fn(f) = x {
                        match f.sig.ident.to_string().as_str() {
                            "execute" => exec = match_fn(f),
                            "query" => query = match_fn(f),
                            "sudo" => sudo = match_fn(f),
                            _ => {}
                        }
                    }
                }
            }
        }
    }
    for m in [&exec, &query, &sudo] {
        if !m.ok {
            problems.push(format!("Router::{}: {}", m.name, m.why));
        }
    }
    let sudo_kinds = enum_variants(app, "SudoMsg").unwrap_or_else(|| {
        problems.push("enum SudoMsg not found in app.rs".into());
        vec![]
    });
    let lift = extract_lift(contracts);
    if !lift.ok {
        problems.push(format!("customize_msg: {}", lift.why));
    }
    let (response_reads, response_calls) = match free_fn(contracts, "customize_response") {
        Some(f) => match sig_params(&f.sig) {
            Ok((None, ps)) if ps.len() == 1 => {
                let mut v = ParamReads { param: &ps[0], fields: vec![], calls: vec![] };
                v.visit_block(&f.block);
                (v.fields, v.calls)
            }
            _ => {
                problems.push("customize_response does not take exactly one plain parameter".into());
                (vec![], vec![])
            }
        },
        None => {
            problems.push("fn customize_response not found in contracts.rs".into());
            (vec![], vec![])
        }
    };
    Routing { exec, query, sudo, sudo_kinds, lift, response_reads, response_calls }
}
