//! translator <repo_src_dir> <Generated.v> <report.json>
//!
//! Regenerates coq/Generated.v from the Rust sources of cw-multi-test (syn, full parse):
//!   * field flow of every `AppBuilder` / `ContractWrapper` constructor and `with_*` step, and of `build`
//!   * the match arms of `Router::execute/query/sudo` and of `customize_msg` as tables
//!   * constants (namespaces, storage keys, event / attribute literals)
//!   * an advisory scan for sources of nondeterminism
//!
//! FAIL-CLOSED: a shape that is not recognised is never guessed.  It becomes `Opaque "<text>"` /
//! `POpaque` / `BOpaque` / `SOther` / `ok := false` inside Generated.v, so the theorems that are re-proved
//! about the regenerated definitions fail instead of silently keeping an old table.
//! Exit code != 0 only when a source file cannot be read or parsed at all (nothing can be decided).

mod emit;
mod flow;
mod layout;
mod route;
mod scan;
mod util;

use std::path::{Path, PathBuf};

fn main() {
    let a: Vec<String> = std::env::args().collect();
    if a.len() != 4 {
        eprintln!("usage: translator <repo_src_dir> <Generated.v> <report.json>");
        std::process::exit(2);
    }
    let src = PathBuf::from(&a[1]);
    let parse = |rel: &str| -> syn::File {
        let p = src.join(rel);
        let txt = std::fs::read_to_string(&p).unwrap_or_else(|e| {
            eprintln!("translator: cannot read {}: {}", p.display(), e);
            std::process::exit(3)
        });
        syn::parse_file(&txt).unwrap_or_else(|e| {
            eprintln!("translator: cannot parse {}: {}", p.display(), e);
            std::process::exit(3)
        })
    };
    let app = parse("app.rs");
    let app_builder = parse("app_builder.rs");
    let contracts = parse("contracts.rs");

    let mut problems: Vec<String> = vec![];
    let builder = flow::extract_builder(&app_builder, &app, &mut problems);
    let wrapper = flow::extract_wrapper(&contracts, &mut problems);
    let routing = route::extract_routing(&app, &contracts, &src, &mut problems);
    let features = scan::feature_closure(&src.join("../Cargo.toml"), &["verif", "staking", "stargate", "cosmwasm_2_2"], &mut problems);
    let files = scan::all_sources(&src);
    let scanned = scan::scan_sources(&src, &files);

    let text = emit::generated_v(&a[1], &builder, &wrapper, &routing, &features, &scanned, &problems);
    let out = Path::new(&a[2]);
    let old = std::fs::read_to_string(out).unwrap_or_default();
    let changed = old != text;
    if changed {
        if let Some(d) = out.parent() {
            let _ = std::fs::create_dir_all(d);
        }
        std::fs::write(out, &text).expect("write Generated.v");
    }
    let report = emit::report_json(&a[1], changed, &builder, &wrapper, &routing, &features, &scanned, &problems);
    let rp = Path::new(&a[3]);
    if let Some(d) = rp.parent() {
        let _ = std::fs::create_dir_all(d);
    }
    std::fs::write(rp, report).expect("write report");
    println!(
        "translator: {} ({}); translation_ok = {}; {} problem(s)",
        out.display(),
        if changed { "rewritten" } else { "unchanged" },
        problems.is_empty(),
        problems.len()
    );
    for p in &problems {
        println!("  problem: {}", p);
    }
}
