#!/usr/bin/env python3
"""Regenerates MANIFEST.json from the table below (single source of truth for the interface)."""
import json, os
ROOT = os.path.dirname(os.path.abspath(__file__))
ALL = ["C%02d" % i for i in range(1, 21)]

CHECKS = {
 "C06": dict(
  text="Coq theorems about a transliteration of transactions.rs (MergeOverlay, StorageTransaction get/range/set/remove, RepLog commit, transactional): merge = overlay for both directions, get/range of a cache stack of any depth = lookup/range of the ordered map it denotes for all bounds, writes touch only the innermost cache, commit makes the base equal to that map, and for EVERY client program with arbitrarily nested transactional blocks the mechanism refines the plain ordered-map semantics. The model is tied to the code on every run by executing the real (hook-exported) cache on generated and exhaustive scripts and evaluating model and spec on the same scripts inside Coq.",
  ref="DESIGN.md section 5 C06, section 4 (OMap.v, Tx.v)",
  note="Trusted: Coq kernel + vm_compute; the hand model's fidelity to transactions.rs (validated by the correspondence run, not proved); MemoryStorage = BTreeMap semantics; harness and check.py. No axioms (Print Assumptions: Closed under the global context).",
  technique="Coq proof (induction over client programs; refinement to an ordered-map spec) + model-vs-implementation correspondence evaluated by vm_compute"),
}
PENDING_REASON = "not claimed yet: model/theorems for this property are still being built (see DESIGN.md); no check is registered, so nothing is asserted about it"

def main():
    hooks = json.load(open(os.path.join(ROOT, "hooks.json")))
    checks = []
    for pid in ALL:
        if pid in CHECKS:
            c = CHECKS[pid]
            checks.append({
              "property_id": pid,
              "quick_cmd": "python3 /verif/check.py %s --tier quick" % pid,
              "thorough_cmd": "python3 /verif/check.py %s --tier thorough" % pid,
              "evidence_file": "/verif/evidence/%s.json" % pid,
              "replay_cmd_template": "python3 /verif/check.py %s --replay {path}" % pid,
              "engine": "coq",
              "level_claimed": {"category": c.get("category", "proof"), "text": c["text"], "design_ref": c["ref"]},
              "level_note": c["note"],
              "technique": c["technique"],
            })
    na = [{"property_id": p, "reason": PENDING_REASON} for p in ALL if p not in CHECKS]
    m = {
      "version": 1,
      "setup_cmd": "sh /verif/setup.sh",
      "hooks": hooks,
      "engines": [
        {"name": "coq", "path": "/verif/coq", "serves_properties": sorted(CHECKS), "kind_free_text": "Coq 8.16.1 models + theorems (hand-written Gallina; Generated.v regenerated from /repo/src by the translator), pinned statements in coq/Properties"},
        {"name": "harness", "path": "/verif/harness", "serves_properties": sorted(CHECKS), "kind_free_text": "Rust crate with a path dependency on /repo (features verif, staking, stargate, cosmwasm_2_2): runs the implementation, prints inputs + observations as Coq terms; the models judge them under vm_compute"},
      ],
      "checks": checks,
      "not_applicable": na,
      "notes": "check.py <id>: exit 0 ok / exit 1 with VIOLATION line / exit 2 infrastructure failure (no verdict). Known findings: known_findings.json.",
    }
    json.dump(m, open(os.path.join(ROOT, "MANIFEST.json"), "w"), indent=1)
    print("MANIFEST.json written:", len(checks), "checks,", len(na), "not claimed")
main()
