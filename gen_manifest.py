#!/usr/bin/env python3
"""Regenerates MANIFEST.json from the table below (single source of truth for the interface)."""
import json, os
ROOT = os.path.dirname(os.path.abspath(__file__))
ALL = ["C%02d" % i for i in range(1, 21)]

CHECKS = {
 "C06": dict(
  text="Coq theorems about a transliteration of transactions.rs (MergeOverlay, StorageTransaction get/range/set/remove, RepLog commit, transactional): merge = overlay for both directions, get/range of a cache stack of any depth = lookup/range of the ordered map it denotes for all bounds, writes touch only the innermost cache, commit makes the base equal to that map, and for EVERY client program with arbitrarily nested transactional blocks the mechanism refines the plain ordered-map semantics. The model is tied to the code on every run by executing the real (hook-exported) cache on generated and exhaustive scripts and evaluating model and spec on the same scripts inside Coq.",
  ref="DESIGN.md section 5 C06, section 4 (OMap.v, Tx.v)",
  note="Trusted: Coq kernel + vm_compute; the hand model's fidelity to transactions.rs (validated by the correspondence run, not proved); MemoryStorage = BTreeMap semantics; harness and check.py. No axioms (Print Assumptions: Closed under the global context).",
  technique="Coq proof (induction over client programs; refinement to an ordered-map spec) + model-vs-implementation correspondence evaluated by vm_compute"),
 "C07": dict(
  text="Coq theorems about a transliteration of prefixed_storage (length_prefixed.rs: 2-byte big-endian length + bytes per segment, panic above 65535; namespace_helpers.rs: get/set/remove_with_prefix, range_with_prefix with its start/end computation, namespace_upper_bound incl. wrap-around, the starts_with filter and trim; mod.rs: mutable and read-only views): the encoding is compositional and prefix-free; starts_with(ns) is exactly the interval [ns, tight bound) and the code's base interval intersected with its filter equals it; get/set/remove/range through a view = the ordered-map operation on the window of the raw store (range: every namespace incl. empty / all-0xFF / 0xFF-ending, every base content, all bounds, both orders, no panic); for EVERY client program (incl. nested transactional blocks) running it through the view equals running it on the window and the complement of the window is untouched; windows of non-comparable paths share no raw key and programs through one leave the other unchanged; an extension path is exactly a sub-window; read-only views reject writes. The model is tied to the code on every run by driving App::prefixed_storage(_mut) / prefixed_multilevel_storage(_mut) and raw App::storage() access on fixed (F1, F12 witnesses), adversarial, exhaustive and generated scripts and judging every answer and every raw dump inside Coq (property oracle first, then model correspondence).",
  ref="DESIGN.md section 5 C07, section 4 (Prefix.v), section 6 (F1, F12)",
  note="Trusted: Coq kernel + vm_compute; the hand model's fidelity to prefixed_storage/*.rs (validated by the correspondence run, not proved); MemoryStorage = BTreeMap semantics, slice::starts_with; harness and check.py. No axioms (Print Assumptions: Closed under the global context).",
  technique="Coq proof (induction over byte strings, sorted lists and client programs; lens law to an ordered-map window spec) + model-vs-implementation correspondence evaluated by vm_compute"),
 "C09": dict(
  text="Coq theorems about a transliteration of bank.rs (BankKeeper init_balance/set_balance/get_balance/get_supply/send = burn-then-mint/mint/burn/normalize_amount, the Balance/AllBalances/Supply query arms) and of cw-utils 2.0.0 NativeBalance (normalize, + Coin, - Coin with checked_sub and removal at zero, - Vec<Coin>), with Err where the code returns an error and Panic where Uint128 `+` would overflow: for ALL well-formed ledgers and ALL coin lists (repeated denoms, zeros) a send/burn succeeds iff some amount is positive and no denomination's TOTAL exceeds the sender's balance, moves exactly the totals, changes no other (account, denom), conserves every supply (burn/mint move it by exactly the total), a self-transfer still needs the funds and is the identity, a failed op changes nothing, the three query kinds agree (Balance = entry of AllBalances or 0, AllBalances strictly sorted without zeros, Supply = sum over all stored accounts), after ANY history balance + debits = initial + credits and supply + burned = initial + minted, no panic within the 128-bit range, the model refines the literal ledger spec op by op (contract executions included), and the oracle accepts the model's own run. The model is tied to the code on every run by executing the real App (BankSudo::Mint via sudo, init_balance via builder closure and init_modules, BankMsg::Send/Burn via execute, a forwarding contract emitting BankMsgs with attached funds) on fixed, exhaustive and generated histories, asking all three query kinds for every (account, denom) after every op and decoding the raw bank window of App::storage(); Coq evaluates the property oracle on the implementation's answers first and the model second.",
  ref="DESIGN.md section 5 C09, section 4 (Bank.v), section 6 (unvalidated recipients), Appendix A (C09); coq/Bank.v, coq/Chk09.v",
  note="Trusted: Coq kernel + vm_compute; the hand model's fidelity to bank.rs and cw-utils balance.rs (validated by the correspondence run, not proved); cosmwasm-std Uint128/MockApi, cw-storage-plus key layout and serde-JSON values (used by the harness to decode the bank window); harness and check.py. Overflow is excluded by an explicit premise (no_overflow / hist_bounded), as the property's quantifier does; the generator keeps every history below 2^128 per denom. No axioms (Print Assumptions: Closed under the global context).",
  technique="Coq proof (induction over coin lists, sorted association lists and histories; refinement to a ledger spec on functions) + model-vs-implementation correspondence and property oracle evaluated by vm_compute"),
 "C18": dict(
  text="Coq theorems about an executable Gallina model of the three address codecs (MockApiBech32 / MockApiBech32m of api.rs with ANY prefix, and cosmwasm_std's MockApi behind IntoAddr), transliterating bech32 0.11's encode / CheckedHrpstring::new / Hrp::parse / byte_iter / checksum engine. FULLY proved, for all inputs: 8->5->8 bit regrouping is the identity on byte strings of every length; the checksum engine is GF(2)-linear; the appended checksum always verifies (all hrps, all data, both variants); a single-symbol error always changes the residue (syndrome argument: the zero-step has a trivial kernel on 30-bit states); humanize-then-canonicalize returns the original bytes and the address validates unchanged whenever humanize succeeds, with the exact success condition (prefix parses and |p|+7+ceil(8n/5) <= 1023, hence every 1..64-byte string, up to 583 bytes); validate returns its input unchanged and accepts exactly the encodings under that variant and prefix; other prefix / other checksum variant / mixed case are rejected; EVERY single-character substitution of a valid address (every position, every replacement character) is rejected by validate, and addr_canonicalize alone rejects every substitution that is not a mere case change; addr_make on a digest is valid under its own codec and injective in digest and prefix-up-to-case; the same for the default codec; the three Api functions never panic; and the oracle used in the run-time check accepts the model's own answers for all inputs. REFUTED and kept visible: the literal reading 'different prefixes give different addresses' fails for prefixes differing only in case (\"A\"/\"a\"), since an HRP is case-insensitive. NOT modelled: SHA-256 (addr_make takes the digest, the harness computes it with sha2). The bit regrouping is modelled on bit lists, not as the crate's iterator state machines. The model is tied to the code on every run by calling the real Api implementations and helpers (round trips for every length 0..70 and the limit lengths, adversarial strings with correct checksums, foreign encodings, names, and every single-character corruption of sampled valid addresses) and evaluating model and property oracle on the same inputs inside Coq.",
  ref="DESIGN.md section 5 C18, Appendix A (C18); coq/Bech32.v, coq/Chk18.v",
  note="Trusted: Coq kernel + vm_compute (finite sweeps over the 32 symbols / 256 byte values, and running the model); the hand model's fidelity to api.rs, bech32 0.11 and cosmwasm-std's MockApi (validated by the correspondence run, not proved); SHA-256 collision-freeness for 'different names'; harness (incl. its independent use of the bech32 and sha2 crates) and check.py. No axioms (Print Assumptions: Closed under the global context).",
  technique="Coq proof (linear algebra over GF(2) on N bit operations, induction over symbol streams, finite sweeps lifted with forallb_forall) + model-vs-implementation correspondence evaluated by vm_compute"),
}
PENDING_REASON = "not claimed yet: model/theorems for this property are still being built (see DESIGN.md); no check is registered, so nothing is asserted about it"

def main():
    hooks = json.load(open(os.path.join(ROOT, "hooks.json")))
    checks = []
    for pid in ALL:
        if pid in CHECKS:
            c = CHECKS[pid]
            checks.append({
              "property_id": pid,
              "quick_cmd": "python3 /verif/check.py %s --tier quick" % pid,
              "thorough_cmd": "python3 /verif/check.py %s --tier thorough" % pid,
              "evidence_file": "/verif/evidence/%s.json" % pid,
              "replay_cmd_template": "python3 /verif/check.py %s --replay {path}" % pid,
              "engine": "coq",
              "level_claimed": {"category": c.get("category", "proof"), "text": c["text"], "design_ref": c["ref"]},
              "level_note": c["note"],
              "technique": c["technique"],
            })
    na = [{"property_id": p, "reason": PENDING_REASON} for p in ALL if p not in CHECKS]
    m = {
      "version": 1,
      "setup_cmd": "sh /verif/setup.sh",
      "hooks": hooks,
      "engines": [
        {"name": "coq", "path": "/verif/coq", "serves_properties": sorted(CHECKS), "kind_free_text": "Coq 8.16.1 models + theorems (hand-written Gallina; Generated.v regenerated from /repo/src by the translator), pinned statements in coq/Properties"},
        {"name": "harness", "path": "/verif/harness", "serves_properties": sorted(CHECKS), "kind_free_text": "Rust crate with a path dependency on /repo (features verif, staking, stargate, cosmwasm_2_2): runs the implementation, prints inputs + observations as Coq terms; the models judge them under vm_compute"},
      ],
      "checks": checks,
      "not_applicable": na,
      "notes": "check.py <id>: exit 0 ok / exit 1 with VIOLATION line / exit 2 infrastructure failure (no verdict). Known findings: known_findings.json.",
    }
    json.dump(m, open(os.path.join(ROOT, "MANIFEST.json"), "w"), indent=1)
    print("MANIFEST.json written:", len(checks), "checks,", len(na), "not claimed")
main()
